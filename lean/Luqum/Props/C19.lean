/-
  C19 — Schema-derived options make the builder nest and type each mapped field right.

  `SchemaAnalyzer(schema).query_builder_options()` (`schemaCfg`) is studied on the JSON `toJson m` of
  a mapping `m : Props` given as an inductive type (`Luqum.Lemmas.EsSchema.Node`): a node is a leaf
  (a `type`, optionally an `index` attribute), a multi-field (a leaf with sub `fields`), an object
  (explicit `"type": "object"`, or implicit: `properties` only) or a nested node. No node has both
  `fields` and `properties`, so the loop-variable re-binding of `_walk_properties` (modelled
  literally by `walkProps`) is not observable here. `toJson m = {"mappings": {"properties": …}}`.

  `Props.wf m` (hypothesis of (b'), (c), (d)): at every level sibling names (and the names of the
  sub fields of a multi-field) are pairwise distinct and contain no dot.

  (a) `walk_enumerates`, `walk_fuel_indep`, `schemaFields_enumerates`: `_walk_properties` yields
      each field of the mapping (leaves and containers; sub fields when asked) once, in document
      order, with its true parents; `schemaFields` gives enough fuel. No hypothesis.
  (b) `notAnalyzed_eq` (no hypothesis): `not_analyzed_fields()` is the list of the dotted paths of
      the fields whose effective definition is not analysed text; `notAnalyzed_iff` (well-formed
      mapping): a field at path `p` is listed iff so. NB: an implicit object (no `type` key) IS
      listed (`None not in (…)`); a sub field inherits the `index` attribute of its multi-field.
  (c) `nestedFields_eq`: `nested_fields()` is the tree of keys `treeB [] m`: a node is registered
      iff its direct parent is a nested node or it is a nested node with at least one child; it
      hangs below its closest registered ancestor under the dotted names in between.
      `nestedFlat_eq`, `nestedPrefixes_iff` (general, any depth): the dotted path of `q` is a nested
      prefix of the builder iff `q` is a nested node having a child `c` with nothing registered at or
      below `c` (`c` is not a nested node with children and, if it is an object, contains no such
      node). KF5 witnesses: `kf5_*`. `objectPrefixes_iff`: the explicit objects having a direct
      child whose type is neither `object` nor `nested`.
  (d) `build_field_word` (any configuration, explicit hypotheses), `build_schema_field` (schema of
      a well-formed mapping, any leaf / multi-field / sub field given by its dotted path): the
      result is a `term` clause iff the field is not analysed, else a `match` clause, wrapped in
      `nested` on the innermost registered nested prefix iff there is one (`build_nested_path`).
      The field is a leaf-like field: for containers see `esBuild_field_word_container` (refused).
      Proved in general for a word without wildcard, different from `*`, spelled with the dotted
      name; the `field:(…)` chain spelling is not covered.

  Spec normalisation lemmas: `Luqum.Lemmas.EsSpecNorm`.
  Proofs: `Luqum.Lemmas.EsSchemaWalk` (a, b), `EsSchemaPaths` (well-formedness, dotted names),
  `EsSchemaNested`, `EsSchemaTree`, `EsSchemaPrefixes` (c), `EsSchemaObjects`, `EsSchemaBuild` (d).
-/
import Luqum.Lemmas.EsSchemaBuild

namespace Luqum.Props.C19
open Luqum Luqum.Lemmas.EsSchema Luqum.Lemmas.EsSpecNorm

theorem normalizeObject_none : normalizeObject .none = none := rfl

/-! ### a sample mapping -/

def lf (ty : String) : Node := .leaf ⟨ty.toList, none⟩

/-- `title` (text, sub field `raw`: keyword), `code` (legacy not analysed string), `author` (explicit
object), `meta` (implicit object), `comments` (nested, with an object and a nested child), `links`
(nested, its only child is an object containing a nested node) -/
def sample : Props :=
  [ ("title".toList, .multi ⟨"text".toList, none⟩ [("raw".toList, ⟨"keyword".toList, none⟩)]),
    ("code".toList, .leaf ⟨"string".toList, some "not_analyzed".toList⟩),
    ("author".toList, .object true [("name".toList, lf "text"), ("id".toList, lf "integer")]),
    ("meta".toList, .object false [("k".toList, lf "keyword")]),
    ("comments".toList, .nested
      [ ("text".toList, lf "text"), ("date".toList, lf "date"),
        ("by".toList, .object true [("nick".toList, lf "keyword")]),
        ("replies".toList, .nested [("body".toList, lf "text")]) ]),
    ("links".toList, .nested
      [ ("inner".toList, .object true [("deep".toList, .nested [("url".toList, lf "keyword")])]) ]) ]

example : Props.wf sample = true := by decide

/-! ### (a) the walk over the properties -/

/-- **(a)** with fuel at least the nesting of the mapping, `_walk_properties` on the JSON of the
properties `ps` yields exactly the structural enumeration `enumProps` (each field once, in document
order, with the names and definitions of its true parents; sub fields iff `sf`) -/
theorem walk_enumerates (sf : Bool) (ps : Props) (fuel : Nat) (parents : Parents)
    (h : Props.depth ps ≤ fuel) :
    walkProps sf fuel (propsJson ps) parents = enumProps sf parents ps :=
  walkProps_eq_enum sf ps fuel parents h

/-- fuel independence -/
theorem walk_fuel_indep (sf : Bool) (ps : Props) (f1 f2 : Nat) (parents : Parents)
    (h1 : Props.depth ps ≤ f1) (h2 : Props.depth ps ≤ f2) :
    walkProps sf f1 (propsJson ps) parents = walkProps sf f2 (propsJson ps) parents :=
  walkProps_fuel_indep sf ps f1 f2 parents h1 h2

/-- `iter_fields` on the schema of a mapping: `schemaFields` provides enough fuel -/
theorem schemaFields_enumerates (m : Props) (sf : Bool) :
    schemaFields (toJson m) sf = enumProps sf [] m :=
  schemaFields_toJson m sf

example : (schemaFields (toJson sample) true).map (fun e => joinDot (e.2.2.map (·.1) ++ [e.1])) =
    ["title", "title.raw", "code", "author", "author.name", "author.id", "meta", "meta.k",
     "comments", "comments.text", "comments.date", "comments.by", "comments.by.nick",
     "comments.replies", "comments.replies.body", "links", "links.inner", "links.inner.deep",
     "links.inner.deep.url"].map String.toList := by decide +kernel

example : (schemaFields (toJson sample) false).length = 18 := by decide +kernel

/-! ### (b) the not analysed fields -/

/-- **(b)** `not_analyzed_fields()` of the schema of a mapping: the dotted paths of the fields
(leaves, sub fields and containers, in document order) whose effective (type, index) passes the test
`notAnalysedDef` -/
theorem notAnalyzed_eq (m : Props) :
    (schemaCfg (toJson m)).notAnalyzed =
      (allFields m).filterMap fun pf => if pf.2.notAnalysed then some (joinDot pf.1) else none :=
  schemaNotAnalyzed_toJson m

/-- **(b')** in a well-formed mapping, the field at path `p` is listed as not analysed iff its type
is none of text / string / nested / object, or it is a legacy `string` with `index: not_analyzed` -/
theorem notAnalyzed_iff {m : Props} (h : Props.wf m = true) {p : List Str} {f : Field}
    (hm : (p, f) ∈ allFields m) :
    joinDot p ∈ (schemaCfg (toJson m)).notAnalyzed ↔ notAnalysedDef f.ty f.idx = true :=
  mem_schemaNotAnalyzed h hm

example : (schemaCfg (toJson sample)).notAnalyzed =
    ["title.raw", "code", "author.id", "meta", "meta.k", "comments.date", "comments.by.nick",
     "links.inner.deep.url"].map String.toList := by decide +kernel

/-- a sub field inherits `index: not_analyzed` from its multi-field -/
example : (schemaCfg (toJson [("s".toList, .multi ⟨"string".toList, some "not_analyzed".toList⟩
      [("a".toList, ⟨"string".toList, none⟩), ("b".toList, ⟨"string".toList, some "analyzed".toList⟩)])])).notAnalyzed =
    ["s", "s.a"].map String.toList := by decide +kernel

/-! ### (c) nested fields and nested prefixes -/

/-- **(c)** `nested_fields()` of the schema of a well-formed mapping is the tree of keys of the
mapping -/
theorem nestedFields_eq {m : Props} (h : Props.wf m = true) :
    schemaNestedFields (toJson m) = kidsJson (treeB [] m) :=
  schemaNestedFields_tree h

/-- the flat nested fields: the dotted paths of the leaves of the tree of keys; a path `p` is such a
leaf iff it is a child `c` of a nested node with nothing registered at or below `c` -/
theorem nestedFlat_eq {m : Props} (h : Props.wf m = true) :
    (schemaCfg (toJson m)).nestedFlat =
      if Props.hasReg m then dedup ((leavesB [] m).map joinDot) else [[]] :=
  nestedFlat_toJson h

theorem mem_leaves (m : Props) (p : List Str) :
    p ∈ leavesB [] m ↔ ∃ q c ps' cn, p = q ++ [c] ∧ (q, Field.node (.nested ps')) ∈ allFields m ∧
      (c, cn) ∈ ps' ∧ cn.hasReg = false :=
  mem_leavesB_allFields m p

/-- **(c)** the nested prefixes of the builder configured from the schema of a well-formed
mapping: for a non-empty path `q` of names without dot (and not all empty), `joinDot q` is a nested
prefix iff `q` is the path of a nested node having a child at or below which nothing is registered.

The full statement "`q` is the path of a nested node" is FALSE (KF5): see `kf5_not_registered`. -/
theorem nestedPrefixes_iff {m : Props} (h : Props.wf m = true) {q : List Str} (hq : q ≠ [])
    (dq : DotFree q) (hne : joinDot q ≠ []) :
    joinDot q ∈ (schemaCfg (toJson m)).nestedPrefixes ↔
      ∃ ps', (q, Field.node (.nested ps')) ∈ allFields m ∧ ∃ c ∈ ps', c.2.hasReg = false :=
  mem_nestedPrefixes h hq dq hne

/-- the object prefixes: the explicit objects with a direct child which is not a container -/
theorem objectPrefixes_iff {m : Props} (h : Props.wf m = true) {q : List Str} (hq : q ≠ [])
    (dq : DotFree q) :
    joinDot q ∈ (schemaCfg (toJson m)).objectPrefixes ↔
      ∃ ps', (q, Field.node (.object true ps')) ∈ allFields m ∧
        ∃ c ∈ ps', c.2.isContainerTy = false :=
  mem_objectPrefixes h hq dq

example : (schemaCfg (toJson sample)).nestedFlat =
    ["comments.text", "comments.date", "comments.by", "comments.replies.body",
     "links.inner.deep.url"].map String.toList := by decide +kernel

/-- KF5 witness: `links` is a nested node, but its only child is an object containing a nested
node: `links` is not a nested prefix (`links.inner.deep` is) -/
theorem kf5_not_registered : (schemaCfg (toJson sample)).nestedPrefixes =
    ["comments", "comments.replies", "links.inner.deep"].map String.toList := by decide +kernel

example : (schemaCfg (toJson sample)).objectPrefixes = ["author", "comments.by"].map String.toList := by
  decide +kernel

/-- a nested node whose only children are nested nodes (with children) is not a nested prefix -/
theorem kf5_only_nested_children :
    (schemaCfg (toJson [("n".toList, .nested [("m".toList, .nested [("x".toList, lf "text")])])])).nestedPrefixes =
      ["n.m".toList] := by decide +kernel

/-- … it is one as soon as it has a leaf child, or an object child without nested node inside -/
example : (schemaCfg (toJson [("n".toList, .nested [("m".toList, .nested [("x".toList, lf "text")]),
      ("y".toList, lf "text")])])).nestedPrefixes = ["n.m".toList, "n".toList] := by decide +kernel

example : (schemaCfg (toJson [("n".toList, .nested [("o".toList, .object true [("x".toList, lf "text")])])])).nestedPrefixes =
      ["n".toList] := by decide +kernel

/-- nested inside object inside nested, under a top-level object: cumulated names -/
example : schemaNestedFields (toJson [("o".toList, .object true [("n".toList, .nested
      [("q".toList, .object false [("r".toList, .nested [("x".toList, lf "text")])]), ("w".toList, lf "text")])])]) =
    [("o.n".toList, .obj [("q".toList, .obj [("r".toList, .obj [("x".toList, .obj [])])]), ("w".toList, .obj [])])] := by
  rfl

/-- no registered nested field at all: the builder's nested prefixes are `[""]` (which is why
`nestedPrefixes_iff` asks for `joinDot q ≠ ""`) -/
example : (schemaCfg (toJson [("a".toList, lf "text"), ("n".toList, .nested [])])).nestedPrefixes = [[]] := by
  decide +kernel

/-! ### (d) the query built for `field:word` -/

/-- **(d), any configuration** (no field options, no sub-field specification, no
`match_word_as_phrase`): for a dotted field which is neither a nested nor an object prefix and a word
without wildcard, different from `*`, the result is a `term` clause iff the field is not analysed,
else a `match` clause, wrapped in `nested` on the innermost registered nested prefix of the path iff
there is one -/
theorem build_field_word (c : EsCfg) (p : List Str) (v : Str) (hp : p ≠ []) (dp : DotFree p)
    (hopt : c.fieldOptions = []) (hphr : c.matchWordAsPhrase = false) (hsub : c.subFields = .none)
    (hn : c.nestedPrefixes.contains (joinDot p) = false)
    (ho : c.objectPrefixes.contains (joinDot p) = false)
    (hw : hasWildcard v = false) (hs : v ≠ ['*']) :
    esBuild c (.field (joinDot p) (.term .word v {}) {}) =
      .ok (wrapNested (innermostNested c p)
        (wordClause (c.notAnalyzed.contains (joinDot p)) (joinDot p) v)) :=
  esBuild_field_word c p v hp dp hopt hphr hsub hn ho hw hs

/-- **(d), schema of a well-formed mapping**: for any leaf, multi-field or sub field `f` at path `p`
(whose dotted name is not empty) the query `p₁.p₂.….pₙ:v` builds the clause on the dotted name,
term-level iff `f` is not analysed text, wrapped on the innermost registered nested prefix -/
theorem build_schema_field {m : Props} (h : Props.wf m = true) {p : List Str} {f : Field}
    (hm : (p, f) ∈ allFields m) (hf : f.isLeafLike = true) (hne : joinDot p ≠ []) (v : Str)
    (hw : hasWildcard v = false) (hs : v ≠ ['*']) :
    esBuild (schemaCfg (toJson m)) (.field (joinDot p) (.term .word v {}) {}) =
      .ok (wrapNested (innermostNested (schemaCfg (toJson m)) p)
        (wordClause (notAnalysedDef f.ty f.idx) (joinDot p) v)) :=
  esBuild_schema_field h hm hf hne v hw hs

/-- the path of the `nested` wrapper: the dotted path of the longest prefix `q` of `p` which is a
nested node having a child at or below which nothing is registered. (Not always the innermost
nested ancestor of the field: `kf5_unwrapped`.) -/
theorem build_nested_path {m : Props} (h : Props.wf m = true) {p : List Str} (dp : DotFree p)
    (hne : ∀ x ∈ p, x ≠ []) {x : Str} (hx : innermostNested (schemaCfg (toJson m)) p = some x) :
    ∃ q ps', q <+: p ∧ x = joinDot q ∧ (q, Field.node (.nested ps')) ∈ allFields m ∧
      (∃ c ∈ ps', c.2.hasReg = false) ∧
      ∀ q', q' <+: p → q.length < q'.length →
        joinDot q' ∉ (schemaCfg (toJson m)).nestedPrefixes :=
  innermostNested_schema h dp hne hx

/-- no wrapper iff no non-empty prefix of the path is a nested prefix -/
theorem build_no_nested_path {c : EsCfg} {p : List Str} :
    innermostNested c p = none ↔
      ∀ j, 1 ≤ j → j ≤ p.length → c.nestedPrefixes.contains (joinDot (p.take j)) = false :=
  innermostNested_eq_none

def q (f v : String) : Tree := .field f.toList (.term .word v.toList {}) {}

/-- `comments.replies.body:hello` — analysed text inside nested inside nested -/
example : esBuild (schemaCfg (toJson sample)) (q "comments.replies.body" "hello") =
    .ok (.obj [("nested".toList, .obj [("path".toList, .str "comments.replies".toList),
      ("query".toList, .obj [("match".toList, .obj [("comments.replies.body".toList,
        .obj [("query".toList, .str "hello".toList),
              ("zero_terms_query".toList, .str "none".toList)])])])])]) := by
  have h := build_schema_field (m := sample) (by decide)
    (p := ["comments".toList, "replies".toList, "body".toList]) (f := Field.node (lf "text"))
    (by simp [allFields, fieldsProps, fieldsNode, sample, lf]) rfl (by decide) "hello".toList
    (by decide) (by decide)
  have hi : innermostNested (schemaCfg (toJson sample))
      ["comments".toList, "replies".toList, "body".toList] = some "comments.replies".toList := by
    decide +kernel
  rw [hi] at h
  exact h

/-- `comments.by.nick:bob` — keyword in an object inside a nested node -/
example : esBuild (schemaCfg (toJson sample)) (q "comments.by.nick" "bob") =
    .ok (.obj [("nested".toList, .obj [("path".toList, .str "comments".toList),
      ("query".toList, .obj [("term".toList, .obj [("comments.by.nick".toList,
        .obj [("value".toList, .str "bob".toList)])])])])]) := by
  have h := build_schema_field (m := sample) (by decide)
    (p := ["comments".toList, "by".toList, "nick".toList]) (f := Field.node (lf "keyword"))
    (by simp [allFields, fieldsProps, fieldsNode, sample, lf]) rfl (by decide) "bob".toList
    (by decide) (by decide)
  have hi : innermostNested (schemaCfg (toJson sample))
      ["comments".toList, "by".toList, "nick".toList] = some "comments".toList := by
    decide +kernel
  rw [hi] at h
  exact h

/-- `title.raw:x` — a sub field, not nested -/
example : esBuild (schemaCfg (toJson sample)) (q "title.raw" "x") =
    .ok (.obj [("term".toList, .obj [("title.raw".toList, .obj [("value".toList, .str "x".toList)])])]) := by
  have h := build_schema_field (m := sample) (by decide)
    (p := ["title".toList, "raw".toList]) (f := Field.sub ⟨"text".toList, none⟩ ⟨"keyword".toList, none⟩)
    (by simp [allFields, fieldsProps, fieldsNode, sample]) rfl (by decide) "x".toList
    (by decide) (by decide)
  have hi : innermostNested (schemaCfg (toJson sample)) ["title".toList, "raw".toList] = none := by
    decide +kernel
  rw [hi] at h
  exact h

/-- KF5 witness, end to end: `x` lies in the object `o` of the nested node `n`, but `o` also
contains a nested node, so that `n` is not a nested prefix: the clause on `n.o.x` is NOT wrapped -/
theorem kf5_unwrapped :
    esBuild (schemaCfg (toJson [("n".toList, .nested [("o".toList, .object true
        [("x".toList, lf "text"), ("m".toList, .nested [("y".toList, lf "text")])])])]))
      (q "n.o.x" "v") =
    .ok (.obj [("match".toList, .obj [("n.o.x".toList,
        .obj [("query".toList, .str "v".toList), ("zero_terms_query".toList, .str "none".toList)])])]) := by
  have h := build_schema_field
    (m := [("n".toList, .nested [("o".toList, .object true
        [("x".toList, lf "text"), ("m".toList, .nested [("y".toList, lf "text")])])])])
    (by decide) (p := ["n".toList, "o".toList, "x".toList]) (f := Field.node (lf "text"))
    (by simp [allFields, fieldsProps, fieldsNode, lf]) rfl (by decide) "v".toList
    (by decide) (by decide)
  have hi : innermostNested (schemaCfg (toJson [("n".toList, .nested [("o".toList, .object true
        [("x".toList, lf "text"), ("m".toList, .nested [("y".toList, lf "text")])])])]))
      ["n".toList, "o".toList, "x".toList] = none := by
    decide +kernel
  rw [hi] at h
  exact h

end Luqum.Props.C19
