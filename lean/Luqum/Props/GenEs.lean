/-
  Translator obligations (G20): decisions of `ElasticsearchQueryBuilder` (luqum/elasticsearch/visitor.py) that the
  clauses of C06 ("clause kind follows analysed-ness", "addressed to the field in effect") and C07 ("refuses an
  explicit AND next to an explicit OR / the implicit operation of the other kind") rest on.

  `Luqum/Generated/Es.lean` is produced on every run by symbolic execution (tools/pysym.py) of
  * `_is_must` / `_is_should` on an instance of each of the 20 classes, for a builder whose `default_operator` is
    `MUST` and one whose is `SHOULD`: tables;
  * `_yield_nested_children(parent, [child])` for each of the 400 pairs of classes and both default operators:
    refused (`OrAndAndOnSameLevel`) or let through: table of the refused pairs;
  * `visit_unknown_operation`: which operation it builds under each default operator;
  * `visit_word` and `visit_phrase` on a symbolic node under a symbolic context (the analysed marker present or not,
    the field prefix present or not, a name handed down or not) for a builder with symbolic `default_field`,
    `_not_analyzed_fields`, `match_word_as_phrase`: the keyword arguments handed to `es_item_factory.build`
    (`_is_analyzed`, `_fields`, `get_name` are executed with them).
  The theorems say that `EsCfg.isMust`, `EsCfg.isShould`, the mix test of `esOperand`, the operation built for an
  implicit operation and the items `esVisit` builds for words and phrases (Model/Es.lean) are these.
  `visit_boost`, `visit_fuzzy`, `visit_proximity`: which attribute of the item built for the operand receives the number
  (`proximity_is_generated`: slop when the field in effect is analysed, fuzziness otherwise).
  `visit_search_field`: the context handed down to the expression of the field (`field_context_is_generated`).
  Modelled, not translated: the constructors of `EWord` / `EPhrase` (`itemOf`: a phrase loses its quotes and has its
  blanks collapsed, the method of a word defaults to `term`, of a phrase to `match_phrase`).
-/
import Luqum.Generated.Es
import Luqum.Props.C07

namespace Luqum.Props.GenEs
open Luqum Generated PyPrim

/-- lookup in a generated table of (class, value under default MUST, value under default SHOULD) -/
def look (tbl : List (String × Bool × Bool)) (defaultMust : Bool) (cls : String) : Bool :=
  match tbl.find? (fun e => e.1 == cls) with
  | some e => if defaultMust then e.2.1 else e.2.2
  | none => false

/-- **`_is_must` is the translated table** -/
theorem isMust_is_generated (c : EsCfg) (t : Tree) :
    c.isMust t = look Es.isMustTable c.defaultMust t.className := by
  cases hd : c.defaultMust <;> cases t with
  | term k _ _ => cases k <;> simp only [EsCfg.isMust, hd, Tree.className] <;> decide
  | group k _ _ => cases k <;> simp only [EsCfg.isMust, hd, Tree.className] <;> decide
  | approx k _ _ _ => cases k <;> simp only [EsCfg.isMust, hd, Tree.className] <;> decide
  | op k _ _ => cases k <;> simp only [EsCfg.isMust, hd, Tree.className] <;> decide
  | unary k _ _ => cases k <;> simp only [EsCfg.isMust, hd, Tree.className] <;> decide
  | orange k _ _ _ => cases k <;> simp only [EsCfg.isMust, hd, Tree.className] <;> decide
  | field _ _ _ => simp only [EsCfg.isMust, Tree.className] <;> decide
  | range _ _ _ _ _ => simp only [EsCfg.isMust, Tree.className] <;> decide
  | boost _ _ _ => simp only [EsCfg.isMust, Tree.className] <;> decide
  | none _ => simp only [EsCfg.isMust, Tree.className] <;> decide

/-- **`_is_should` is the translated table** -/
theorem isShould_is_generated (c : EsCfg) (t : Tree) :
    c.isShould t = look Es.isShouldTable c.defaultMust t.className := by
  cases hd : c.defaultMust <;> cases t with
  | term k _ _ => cases k <;> simp only [EsCfg.isShould, hd, Tree.className] <;> decide
  | group k _ _ => cases k <;> simp only [EsCfg.isShould, hd, Tree.className] <;> decide
  | approx k _ _ _ => cases k <;> simp only [EsCfg.isShould, hd, Tree.className] <;> decide
  | op k _ _ => cases k <;> simp only [EsCfg.isShould, hd, Tree.className] <;> decide
  | unary k _ _ => cases k <;> simp only [EsCfg.isShould, hd, Tree.className] <;> decide
  | orange k _ _ _ => cases k <;> simp only [EsCfg.isShould, hd, Tree.className] <;> decide
  | field _ _ _ => simp only [EsCfg.isShould, Tree.className] <;> decide
  | range _ _ _ _ _ => simp only [EsCfg.isShould, Tree.className] <;> decide
  | boost _ _ _ => simp only [EsCfg.isShould, Tree.className] <;> decide
  | none _ => simp only [EsCfg.isShould, Tree.className] <;> decide

/-- the AND-like / OR-like predicates in which `refuses_exactly` (Props/C07) states which queries the builder refuses
are the translated tables of `_is_must` / `_is_should` -/
theorem spec_andLike_is_generated (c : EsCfg) (t : Tree) :
    Luqum.Props.C07.andLike c t = look Es.isMustTable c.defaultMust t.className := by
  rw [Luqum.Props.C07.andLike_eq, isMust_is_generated]

theorem spec_orLike_is_generated (c : EsCfg) (t : Tree) :
    Luqum.Props.C07.orLike c t = look Es.isShouldTable c.defaultMust t.className := by
  rw [Luqum.Props.C07.orLike_eq, isShould_is_generated]

/-- lookup in the generated table of refused (parent, child) pairs -/
def refused (defaultMust : Bool) (parent child : String) : Bool :=
  match Es.mixTable.find? (fun e => e.1 == parent && e.2.1 == child) with
  | some e => if defaultMust then e.2.2.1 else e.2.2.2
  | none => false

/-- the classes the tables were generated for -/
def tableNames : List String := Es.isMustTable.map (·.1)

theorem className_mem (t : Tree) : t.className ∈ tableNames := by
  cases t with
  | term k _ _ => cases k <;> simp only [Tree.className] <;> decide
  | group k _ _ => cases k <;> simp only [Tree.className] <;> decide
  | approx k _ _ _ => cases k <;> simp only [Tree.className] <;> decide
  | op k _ _ => cases k <;> simp only [Tree.className] <;> decide
  | unary k _ _ => cases k <;> simp only [Tree.className] <;> decide
  | orange k _ _ _ => cases k <;> simp only [Tree.className] <;> decide
  | field _ _ _ => simp only [Tree.className]; decide
  | range _ _ _ _ _ => simp only [Tree.className]; decide
  | boost _ _ _ => simp only [Tree.className]; decide
  | none _ => simp only [Tree.className]; decide

/-- on class names, the test of the model is the generated table (finite check: 20 x 20 x 2) -/
theorem mix_on_names : ∀ dm : Bool, ∀ p ∈ tableNames, ∀ ch ∈ tableNames,
    ((look Es.isShouldTable dm p && look Es.isMustTable dm ch) ||
      (look Es.isMustTable dm p && look Es.isShouldTable dm ch)) = refused dm p ch := by
  decide +kernel

/-- **the AND / OR mix test is the translated decision**: the condition under which the model's `esOperand` refuses
an operand (`OrAndAndOnSameLevel`) is, for every parent, operand and default operator, what
`_yield_nested_children` does on nodes of these classes -/
theorem mix_is_generated (c : EsCfg) (parent ch : Tree) :
    ((c.isShould parent && c.isMust ch) || (c.isMust parent && c.isShould ch)) =
      refused c.defaultMust parent.className ch.className := by
  rw [isMust_is_generated, isMust_is_generated, isShould_is_generated, isShould_is_generated]
  exact mix_on_names _ _ (className_mem parent) _ (className_mem ch)

/-- **the operation built for an implicit operation** is the one `visit_unknown_operation` builds -/
theorem unknown_is_generated :
    Es.unknownKind = [("must", "must"), ("should", "should")] := by decide

/-! ### the leaves -/

/-- the constructors of `EWord` / `EPhrase` (modelled): a phrase loses its quotes and has its blanks collapsed, its
method is `match_phrase`; the method of a word defaults to `term` -/
def itemOf (a : LeafArgs) : EItem :=
  if a.cls == "EPhrase" then
    { kind := .phrase, q := some (((collapseSpaces a.q).drop 1).dropLast), method0 := "match_phrase".toList,
      fields := a.fields, name := a.name }
  else
    { kind := .word, q := some a.q, method0 := a.method.getD "term".toList, fields := a.fields, name := a.name }

/-- `visit_word` under the model's context: the variant translated for that kind of context -/
def genWord (c : EsCfg) (x : EsCtx) (v : Str) (l : Lay) : Except PyErr LeafArgs :=
  match x.analyzed, x.fieldPrefix with
  | none, none => Es.visit_word_nomarker_noprefix c.defaultField c.notAnalyzed c.matchWordAsPhrase v l.name x.name
  | none, some p => Es.visit_word_nomarker_prefix c.defaultField c.notAnalyzed c.matchWordAsPhrase v l.name x.name p
  | some m, none => Es.visit_word_marker_noprefix c.defaultField c.notAnalyzed c.matchWordAsPhrase v l.name x.name m
  | some m, some p => Es.visit_word_marker_prefix c.defaultField c.notAnalyzed c.matchWordAsPhrase v l.name x.name m p

def genPhrase (c : EsCfg) (x : EsCtx) (v : Str) (l : Lay) : Except PyErr LeafArgs :=
  match x.analyzed, x.fieldPrefix with
  | none, none => Es.visit_phrase_nomarker_noprefix c.defaultField c.notAnalyzed c.matchWordAsPhrase v l.name x.name
  | none, some p => Es.visit_phrase_nomarker_prefix c.defaultField c.notAnalyzed c.matchWordAsPhrase v l.name x.name p
  | some m, none => Es.visit_phrase_marker_noprefix c.defaultField c.notAnalyzed c.matchWordAsPhrase v l.name x.name m
  | some m, some p => Es.visit_phrase_marker_prefix c.defaultField c.notAnalyzed c.matchWordAsPhrase v l.name x.name m p

/-- **the item built for a word is the translated code**: under every configuration and context, `visit_word` hands
the factory arguments from which the model's item is made -/
theorem word_is_generated (c : EsCfg) (x : EsCtx) (v : Str) (l : Lay) :
    ∃ a, genWord c x v l = .ok a ∧ esVisit c x (.term .word v l) = .ok [.item (itemOf a)] := by
  rw [esVisit]
  unfold genWord
  cases ha : x.analyzed <;> cases hp : x.fieldPrefix <;> cases hn : l.name <;>
    simp only [Es.visit_word_nomarker_noprefix, Es.visit_word_nomarker_prefix, Es.visit_word_marker_noprefix,
      Es.visit_word_marker_prefix, EsCfg.isAnalyzed, EsCfg.fields, ctxName, ha, hp, hn, Tree.lay] <;>
    (repeat' split) <;> simp_all [itemOf]

/-- **the item built for a phrase is the translated code** -/
theorem phrase_is_generated (c : EsCfg) (x : EsCtx) (v : Str) (l : Lay) :
    ∃ a, genPhrase c x v l = .ok a ∧ esVisit c x (.term .phrase v l) = .ok [.item (itemOf a)] := by
  rw [esVisit]
  unfold genPhrase
  cases ha : x.analyzed <;> cases hp : x.fieldPrefix <;> cases hn : l.name <;>
    simp only [Es.visit_phrase_nomarker_noprefix, Es.visit_phrase_nomarker_prefix, Es.visit_phrase_marker_noprefix,
      Es.visit_phrase_marker_prefix, EsCfg.isAnalyzed, EsCfg.fields, ctxName, ha, hp, hn, Tree.lay] <;>
    (repeat' split) <;> simp_all [itemOf]

/-! ### the modifiers: which attribute of the item built for the operand receives the number -/

/-- the model's setter for the attribute the translated method assigns -/
def setBy (attr : String) (d : Dec) (en : ETree) : ETree :=
  if attr = "boost" then setBoost d en
  else if attr = "fuzziness" then setFuzzy d en
  else if attr = "slop" then setSlop d en
  else en

def genProximity (c : EsCfg) (x : EsCtx) : Except PyErr String :=
  match x.analyzed with
  | none => Es.visit_proximity_nomarker c.defaultField c.notAnalyzed
  | some m => Es.visit_proximity_marker c.defaultField c.notAnalyzed m

/-- **slop or fuzziness for `"a b"~n` is the translated decision**: `visit_proximity` assigns `slop` when the field in
effect is analysed and `fuzziness` otherwise, which is what the model's `esVisit` does with the item of the phrase -/
theorem proximity_is_generated (c : EsCfg) (x : EsCtx) (d : Dec) (en : ETree) :
    ∃ a, genProximity c x = .ok a ∧
      (if c.isAnalyzed x then setSlop d en else setFuzzy d en) = setBy a d en := by
  unfold genProximity
  cases ha : x.analyzed with
  | none =>
    simp only [Es.visit_proximity_nomarker, EsCfg.isAnalyzed, ha]
    by_cases h : c.defaultField ∈ c.notAnalyzed <;> simp [h, setBy]
  | some m =>
    simp only [Es.visit_proximity_marker, EsCfg.isAnalyzed, ha]
    cases m <;> simp [setBy]

/-- `visit_fuzzy` assigns `fuzziness`, `visit_boost` assigns `boost`, under every context -/
theorem fuzzy_boost_are_generated (dflt : Str) (na : List Str) (m : Bool) (d : Dec) (en : ETree) :
    Es.visit_fuzzy_nomarker dflt na = .ok "fuzziness" ∧ Es.visit_fuzzy_marker dflt na m = .ok "fuzziness" ∧
    Es.visit_boost_nomarker dflt na = .ok "boost" ∧ Es.visit_boost_marker dflt na m = .ok "boost" ∧
    setBy "fuzziness" d en = setFuzzy d en ∧ setBy "boost" d en = setBoost d en := by
  simp [Es.visit_fuzzy_nomarker, Es.visit_fuzzy_marker, Es.visit_boost_nomarker, Es.visit_boost_marker, setBy]

/-! ### the context a field hands down to its expression -/

def genFieldCtx (c : EsCfg) (x : EsCtx) (n other : Str) (l : Lay) : Except PyErr FieldCtx :=
  match x.fieldPrefix with
  | none => Es.visit_search_field_context_noprefix c.notAnalyzed n other l.name x.name
  | some p => Es.visit_search_field_context_prefix c.notAnalyzed n other l.name x.name p

/-- **the field in effect below `name:` is the translated code**: the prefix handed down is the enclosing prefix
followed by the dotted parts of the name, the analysed marker says whether the full dotted name is among the
non-analysed fields -- the two values the model's `esVisit` puts into the context of the field's expression -- and
foreign keys of the context are kept -/
theorem field_context_is_generated (c : EsCfg) (x : EsCtx) (n other : Str) (l : Lay) :
    genFieldCtx c x n other l =
      .ok (!c.notAnalyzed.contains (joinDot (x.fieldPrefix.getD [] ++ splitOnChar '.' n)),
           x.fieldPrefix.getD [] ++ splitOnChar '.' n, true) := by
  unfold genFieldCtx
  cases hp : x.fieldPrefix <;>
    simp [Es.visit_search_field_context_noprefix, Es.visit_search_field_context_prefix, PyPrim.splitOn, joinDot]

/-- every function the translator was asked for was translated -/
theorem es_names_complete : Es.esNames.length = 8 + 6 + 2 := by decide

end Luqum.Props.GenEs
