import Luqum.Model.ParserInst
namespace Luqum.Props.C02
open Luqum
/-- placeholder until the property theorems land: the empty input is a syntax error at the end -/
theorem parse_empty : parse [] = .error .syntaxEnd := by rfl
end Luqum.Props.C02
