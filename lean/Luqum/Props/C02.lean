/-
  C02 — positions: for every accepted query and every node of the resulting tree, `pos` and `size`
  designate the node's body in the input, the span widened by head and tail designates the node
  printed with them; the widened spans of the children of a node lie inside the node's span, in
  order and without overlapping; the widened span of the root is the whole input.
  All under the hypothesis of known finding KF1 (no separator directly before a ':'), and with the
  numerals after `~` / `^` in their source spelling (as in C01).

  Property theorems only; the lemmas are in Luqum/Lemmas:
    LaidDefs    the predicate `Laid` and its body-indexed twin `Pos`
    LaidAct, LaidBin, LaidActMain   every semantic action keeps the layout (`act_pos`)
    LaidRun     the run invariant, for arbitrary tables with a certificate (`runLoop_laid`)
    LaidLex     the lexer puts every token at its offset (`lex_tokPos`)
    LaidPath    consequences path by path (`Laid.at`, `Laid.slices`, `Laid.chain`)
    LaidCheck   Bool checker of `Laid` for the witnesses
  The arithmetic of `binary_operation` is exact only because the LALR tables never hand it a right
  operand of the class being built: this table fact comes from the kernel-checked certificate of
  C03 (`Luqum.Props.C03.cert_ok`).
-/
import Luqum.Model.ParserInst
import Luqum.Props.C01
import Luqum.Props.C03
import Luqum.Lemmas.LaidRun
import Luqum.Lemmas.LaidLex
import Luqum.Lemmas.LaidPath
import Luqum.Lemmas.LaidCheck

namespace Luqum.Props.C02
open Luqum
open Luqum.Props.C01 (noBlankBeforeColon tables_ok)

/-! ### the predicate

`Laid s off t` (Luqum/Lemmas/LaidDefs.lean) says: if the text `t.full s` (the tree printed with
heads and tails) starts at offset `off` of a string, then for `t` and all its descendants `pos` is
the offset of the node's body and `size` the length of the body. It is defined by recursion on the
tree; the equations below are its definition, constructor by constructor (`LayAt l p body` is
`l.pos = some p ∧ l.size = some body.length`). `NoneItem` is never laid out. -/

theorem laid_term (s : NumStyle) (off : Int) (k : TermK) (v : Str) (l : Lay) :
    Laid s off (.term k v l) ↔ l.pos = some (off + l.head.length) ∧ l.size = some (v.length : Int) := by
  simp only [Laid, LayAt, body_term]

theorem laid_field (s : NumStyle) (off : Int) (n : Str) (e : Tree) (l : Lay) :
    Laid s off (.field n e l) ↔
      LayAt l (off + l.head.length) (n ++ [':'] ++ e.full s) ∧
      Laid s (off + l.head.length + n.length + 1) e := by
  simp only [Laid, body_field]

theorem laid_group (s : NumStyle) (off : Int) (k : GrpK) (e : Tree) (l : Lay) :
    Laid s off (.group k e l) ↔
      LayAt l (off + l.head.length) (['('] ++ e.full s ++ [')']) ∧
      Laid s (off + l.head.length + 1) e := by
  simp only [Laid, body_group]

theorem laid_range (s : NumStyle) (off : Int) (a b : Tree) (il ih : Bool) (l : Lay) :
    Laid s off (.range a b il ih l) ↔
      LayAt l (off + l.head.length)
        ([if il then '[' else '{'] ++ a.full s ++ "TO".toList ++ b.full s ++ [if ih then ']' else '}']) ∧
      Laid s (off + l.head.length + 1) a ∧
      Laid s (off + l.head.length + 1 + (a.full s).length + 2) b := by
  simp only [Laid, body_range]

theorem laid_approx (s : NumStyle) (off : Int) (k : ApxK) (t : Tree) (n : Num) (l : Lay) :
    Laid s off (.approx k t n l) ↔
      LayAt l (off + l.head.length) (t.full s ++ ['~'] ++ n.text s) ∧
      Laid s (off + l.head.length) t := by
  simp only [Laid, Tree.body]

theorem laid_boost (s : NumStyle) (off : Int) (e : Tree) (n : Num) (l : Lay) :
    Laid s off (.boost e n l) ↔
      LayAt l (off + l.head.length) (e.full s ++ ['^'] ++ n.text s) ∧
      Laid s (off + l.head.length) e := by
  simp only [Laid, Tree.body]

/-- the operands of an operation follow each other, separated by the operator word -/
theorem laid_op (s : NumStyle) (off : Int) (k : OpK) (xs : List Tree) (l : Lay) :
    Laid s off (.op k xs l) ↔
      LayAt l (off + l.head.length) (joinWith k.word (Tree.fulls s xs)) ∧
      LaidList s k.word.length (off + l.head.length) xs := by
  simp only [Laid, body_op]

theorem laidList_nil (s : NumStyle) (sep : Nat) (off : Int) : LaidList s sep off [] ↔ True := by
  simp only [LaidList]

theorem laidList_cons (s : NumStyle) (sep : Nat) (off : Int) (x : Tree) (r : List Tree) :
    LaidList s sep off (x :: r) ↔ Laid s off x ∧ LaidList s sep (off + (x.full s).length + sep) r := by
  simp only [LaidList]

theorem laid_unary (s : NumStyle) (off : Int) (k : UnK) (a : Tree) (l : Lay) :
    Laid s off (.unary k a l) ↔
      LayAt l (off + l.head.length) (k.word ++ a.full s) ∧
      Laid s (off + l.head.length + k.word.length) a := by
  simp only [Laid, Tree.body]

theorem laid_orange (s : NumStyle) (off : Int) (k : ORK) (a : Tree) (inc : Bool) (l : Lay) :
    Laid s off (.orange k a inc l) ↔
      LayAt l (off + l.head.length) (k.word ++ (if inc then ['='] else []) ++ a.full s) ∧
      Laid s (off + l.head.length + (k.word ++ (if inc then ['='] else [])).length) a := by
  simp only [Laid, Tree.body, orangePre]

theorem laid_none (s : NumStyle) (off : Int) (l : Lay) : ¬ Laid s off (.none l) := by
  simp only [Laid, not_false_eq_true]

/-- generically: `pos` is the offset plus the length of the head, `size` the length of the body -/
theorem laid_pos_size (s : NumStyle) (off : Int) (t : Tree) (h : Laid s off t) :
    t.lay.pos = some (off + t.lay.head.length) ∧ t.lay.size = some ((t.body s).length : Int) :=
  ((laid_iff_pos s t off).1 h).layAt

/-! ### the main theorem -/

private theorem adj_of_noBlank : ∀ toks : List Tok, noBlankBeforeColon toks = true →
    Adj (toks.map Tok.toVal)
  | [], _ => trivial
  | [_], _ => trivial
  | t1 :: t2 :: r, h => by
    simp only [noBlankBeforeColon, Bool.and_eq_true, Bool.or_eq_true, bne_iff_ne, ne_eq,
      List.isEmpty_iff] at h
    refine ⟨fun hc => ?_, adj_of_noBlank (t2 :: r) h.2⟩
    rw [toVal_isColon] at hc
    rw [toVal_lay_tail]
    rcases h.1 with h1 | h1
    · exact absurd (by simpa using hc) h1
    · exact h1

/-- **generic form** (restated from `Luqum.runLoop_laid`): for ARBITRARY tables `T` satisfying the
three `TablesOK` facts and ARBITRARY certificate `C` accepted by the checker of C03, a successful
run of the LALR driver over a well-formed token sequence laid out from offset 0 returns a value laid
out at offset 0 -/
theorem run_laid (T : Tables) (C : Cert) (hT : TablesOK T) (hC : certOK T C = true) (fuel : Nat)
    (toks : List Tok) (lerr : Option LexErr) (t : Tree) (hok : SeqOK (toks.map Tok.toVal))
    (hp : SeqPos (toks.map Tok.toVal) 0)
    (h : runLoop T fuel { states := [0], vals := [] } toks lerr = .ok (.item t)) :
    Laid .raw 0 t := by
  have := runLoop_laid hT hC fuel toks lerr _ hok hp h
  exact (laid_iff_pos .raw t 0).2 (by simpa [Val.PosAt, Val.lay, Tree.head] using this)

/-- the lexer puts every token at its place: `pos` of a token is the total length of the heads,
lexemes and tails of the tokens before it, plus the length of its own head (whatever the input, as
long as no illegal character is met) -/
theorem lex_positions (s : Str) (toks : List Tok) (h : lex s = (toks, none)) : TokPos toks 0 :=
  lex_tokPos h

/-- **C02 (partial: up to KF1)**: if `parse s` succeeds and no separator stands directly before a
`:`, then the tree is laid out at offset 0: for every node, `pos` is the offset of the node's body in
the tree printed with heads and tails (numerals as spelled in the source) — which by C01 is `s` —
and `size` is the length of that body.

What is missing for the full property: the hypothesis `noBlankBeforeColon` (known finding KF1).
Without it the clause fails for the printed text (see the witness `foo :bar` below): the lost blank
is still counted in `size` of the `SearchField` and in `pos` of what follows it, i.e. `pos` / `size`
keep designating slices of the *input*, which the printed tree no longer spells. -/
theorem parse_laid_partial (s : Str) (t : Tree)
    (h : parse s = .ok t) (hk : noBlankBeforeColon (lex s).1 = true) :
    Laid .raw 0 t := by
  unfold parse parseWith at h
  rcases hlex : lex s with ⟨toks, lerr⟩
  rw [hlex] at h hk
  simp only at h hk
  split at h
  · rename_i t' hrun
    cases h
    have hnolex : lerr = none := runLoop_no_lexErr tables_ok.acceptEnd _ _ toks lerr _ hrun
    subst hnolex
    obtain ⟨hwf, _⟩ := lex_spec hlex
    have hok : SeqOK (toks.map Tok.toVal) :=
      ⟨allGood_toVal hwf, allNF_toVal hwf, adj_of_noBlank toks hk⟩
    have hp : SeqPos (toks.map Tok.toVal) 0 := by
      simpa using seqPos_toVal hwf.ok (lex_tokPos hlex)
    exact run_laid tables C03.cert tables_ok C03.cert_ok _ toks none t hok hp hrun
  · cases h
  · cases h

/-! ### corollaries, node by node

`t.at? p` is `element_from_path` (Luqum/Model/Visitor.lean); `n.span ht` models
`Item.span(head_tail=ht)` (Luqum/Lemmas/LaidPath.lean). -/

/-- every node of the parse tree occurs in the input at the offset where it is laid out -/
theorem node_occurrence_partial (s : Str) (t : Tree) (h : parse s = .ok t)
    (hk : noBlankBeforeColon (lex s).1 = true) (p : List Nat) (n : Tree) (hn : t.at? p = some n) :
    ∃ pre post, s = pre ++ n.full .raw ++ post ∧ Laid .raw pre.length n := by
  have hl := parse_laid_partial s t h hk
  obtain ⟨pre, post, hf, hl'⟩ := Laid.at p hl hn
  rw [C01.parse_lossless_partial s t h hk] at hf
  exact ⟨pre, post, hf, by simpa using hl'⟩

/-- **C02, slices (partial: up to KF1)**: for the node `n` at any path of the parse tree, `pos` and
`size` are natural numbers; the slice of the input they designate is `n` printed without head and
tail; the slice widened by the lengths of head and tail is `n` printed with them (numerals as
spelled in the source) -/
theorem node_slices_partial (s : Str) (t : Tree) (h : parse s = .ok t)
    (hk : noBlankBeforeColon (lex s).1 = true) (p : List Nat) (n : Tree) (hn : t.at? p = some n) :
    ∃ pos size : Nat, n.lay.pos = some (pos : Int) ∧ n.lay.size = some (size : Int) ∧
      (s.drop pos).take size = n.body .raw ∧
      n.head.length ≤ pos ∧
      (s.drop (pos - n.head.length)).take (n.head.length + size + n.tail.length) = n.full .raw := by
  obtain ⟨pre, post, hs, hl⟩ := node_occurrence_partial s t h hk p n hn
  obtain ⟨h1, h2, h3, h4⟩ := Laid.slices hs hl
  refine ⟨pre.length + n.head.length, (n.body .raw).length, h1, h2, h3, by omega, ?_⟩
  rw [Nat.add_sub_cancel]; exact h4

/-- **C02, children (partial: up to KF1)**: for the node `n` at any path of the parse tree, with
span `(a, b)` (not widened): every child has a widened span `(a', b')` with `a ≤ a' ≤ b' ≤ b`, and
a child with a smaller index ends before a child with a larger index starts -/
theorem children_spans_partial (s : Str) (t : Tree) (h : parse s = .ok t)
    (hk : noBlankBeforeColon (lex s).1 = true) (p : List Nat) (n : Tree) (hn : t.at? p = some n) :
    ∃ a b, n.span false = some (a, b) ∧
      (∀ (i : Nat) (c : Tree), n.children[i]? = some c →
        ∃ a' b', c.span true = some (a', b') ∧ a ≤ a' ∧ a' ≤ b' ∧ b' ≤ b) ∧
      (∀ (i j : Nat) (ci cj : Tree), i < j → n.children[i]? = some ci → n.children[j]? = some cj →
        ∃ a₁ b₁ a₂ b₂, ci.span true = some (a₁, b₁) ∧ cj.span true = some (a₂, b₂) ∧ b₁ ≤ a₂) := by
  obtain ⟨pre, post, _, hl⟩ := node_occurrence_partial s t h hk p n hn
  exact ⟨_, _, hl.span_false, SpanChain.spec hl.chain⟩

/-- **C02, root (partial: up to KF1)**: the widened span of the root is the whole input -/
theorem root_span_partial (s : Str) (t : Tree) (h : parse s = .ok t)
    (hk : noBlankBeforeColon (lex s).1 = true) : t.span true = some (0, (s.length : Int)) := by
  have := (parse_laid_partial s t h hk).span_true
  rw [C01.parse_lossless_partial s t h hk] at this
  simpa using this

/-- what the implementation prints (`.norm`, numerals re-spelled) is laid out in the same way once
the numerals of the tree are re-spelled as in C01: `Laid` for the source spelling is the statement
"up to the numeral re-spelling allowed by C01" -/
theorem print_norm_eq_raw_respelled (t : Tree) : t.full .norm = (C01.respell t).full .raw :=
  C01.print_norm_eq_raw_respelled t

/-! ### witnesses -/

private def laidAt0 (s : String) : Bool :=
  match parse s.toList with
  | .ok t => laidB .raw 0 t
  | .error _ => false

private theorem laidAt0_spec (s : String) (h : laidAt0 s = true) :
    ∃ t, parse s.toList = .ok t ∧ Laid .raw 0 t := by
  unfold laidAt0 at h
  split at h
  · rename_i t ht; exact ⟨t, ht, (laidB_iff .raw 0 t).1 h⟩
  · cases h

/-- non-vacuity: a query with AND, OR, an implicit operation, a group, a field, a range, a boost, a
fuzzy term, a proximity, a prefix and several blanks parses, satisfies the hypothesis, and is laid
out at offset 0 (checked directly on the tree, not through the theorem) -/
example :
    let s := "  a  AND (f:[1 TO  5}^2.50   OR \"x y\"~3 OR w~ ) -z  NOT  u"
    laidAt0 s = true ∧ noBlankBeforeColon (lex s.toList).1 = true :=
  ⟨by decide +kernel, by decide +kernel⟩

/-- the positions in a small instance, explicitly: the spans of the root operation (its first
operand carries the leading blank as head, its last the trailing blank as tail), of the field, of
the range inside the boost, and the widened span of the upper bound (whose head is the two blanks
after `TO`) -/
example :
    (parse " a AND f:[1 TO  5}^2 ".toList).map (fun t =>
      ((t.at? []).map (·.span false), (t.at? [1]).map (·.span false),
       (t.at? [1, 0, 0]).map (·.span false), (t.at? [1, 0, 0, 1]).map (·.span true)))
    = .ok (some (some (0, 21)), some (some (7, 21)), some (some (9, 18)), some (some (14, 17))) := by
  rfl

/-- KF1 (negative witness): with a blank between the field name and `:` the tree is not laid out:
the `SearchField` prints as `foo:bar` (7 characters) but its size is 8, and `bar` has `pos` 5 while
it is printed at offset 4 -/
example :
    (parse "foo :bar".toList).map (fun t => (laidB .raw 0 t, t.body .raw, t.span false,
      (t.at? [0]).map (·.span false)))
    = .ok (false, "foo:bar".toList, some (0, 8), some (some (5, 8))) := by rfl

example : ∀ t, parse "foo :bar".toList = .ok t → ¬ Laid .raw 0 t := by
  intro t ht hl
  have h1 : laidAt0 "foo :bar" = false := by decide +kernel
  have h2 : laidAt0 "foo :bar" = true := by
    unfold laidAt0; rw [ht]; exact (laidB_iff .raw 0 t).2 hl
  rw [h1] at h2; cases h2

/-- in that witness `pos` and `size` still designate the right slices of the *input* -/
example :
    let s := "foo :bar".toList
    (parse s).map (fun t => (t.at? [0]).map (fun n =>
      (s.drop 5).take 3 == n.body .raw)) = .ok (some true) := by rfl

/-- the empty input is a syntax error at the end -/
theorem parse_empty : parse [] = .error .syntaxEnd := by rfl

end Luqum.Props.C02
