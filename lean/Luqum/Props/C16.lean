/-
  C16 — Match propagation marks a sub-expression as matching exactly when it is true.

  `MatchingPropagator` (`luqum.naming`) receives, for each named element of a query (the names are
  those `auto_name` gives: the direct operands of the operations, or the root when there is no
  operation), whether the term it covers matched, and classifies every sub-expression as matching
  or not. `propagate_correct`: every sub-expression of the query — other than the bounds of a range
  and the term inside a fuzzy / proximity, which are never visited — is classified exactly once, as
  matching precisely when it evaluates to true under the boolean semantics `evalT`:
  AND = all, OR = any, implicit operation = the configured default operation, `NOT` and `-` =
  negation, every other construct = the value of its operand.
  Quantified over all trees (satisfying `good`) × all truth assignments × both default operations.
  `propagate_correct_reported` is the same conclusion for the reports a search engine really gives:
  the names of parenthesised operations are reported too when their clause matched (`propagate_correct`
  is the case where none is; the examples `bad3`, `bad4` show that "truthfully" and "no negation
  strictly between the element and its operation" are needed).

  Hypotheses on the tree (`good false t`, all of them necessary, see `good` and the `example`s at
  the end of the file):
  * no negation lies STRICTLY between a named element and the term it covers (a negation that is
    itself the named element is fine);
  * no operation inside a `Range` / `Fuzzy` / `Proximity`. Counterexample otherwise:
    `t = .range (.op .and [a, b]) c`: `named t = [[0,0],[0,1]]`, the root is term-like but neither it
    nor an ancestor is named, `_status_from_parent` answers false whatever `τ []` is;
  * no operation without operands and no `NoneItem` (they are not term-like, yet their status is the
    inherited one), no `BoolOperation` (it has no all / any meaning; the implementation treats it
    as a conjunction, and so does `evalT`, but this is not claimed).

  Layout: the definitions used in the statements are in `Luqum.Lemmas.PropagateDefs` (re-exported
  here), the proof in `Luqum.Lemmas.Propagate` (`propagate_spec`, for any class tuples satisfying
  `CfgSpec`). The only facts about the GENERATED class tuples are the theorems of Part A below: when
  the Python source changes one of the tuples, exactly the corresponding theorem fails.
-/
import Luqum.Lemmas.Propagate

namespace Luqum.Props.C16
open Luqum Luqum.Lemmas.NamedPaths

export Luqum.Lemmas.Propagate (isOrNode isNeg isAtomic isTermLike evalT evalTs cover negFree opFree
  good goods visible coverVal coverOp negFreeOp negFreeBelow preVal coverOpVal)

/-! ### Part A — the generated class tuples -/

/-- `OR_NODES` with default operation OR: `OrOperation` and `UnknownOperation` -/
theorem orNodes_defaultOr (t : Tree) :
    isInstanceOf Generated.orNodesDefaultOr t = isOrNode true t := by
  cases t with
  | term k => cases k <;> rfl
  | group k => cases k <;> rfl
  | approx k => cases k <;> rfl
  | op k => cases k <;> rfl
  | unary k => cases k <;> rfl
  | orange k => cases k <;> rfl
  | _ => rfl

/-- `OR_NODES` with default operation AND: `OrOperation` only -/
theorem orNodes_defaultAnd (t : Tree) :
    isInstanceOf Generated.orNodesDefaultAnd t = isOrNode false t := by
  cases t with
  | term k => cases k <;> rfl
  | group k => cases k <;> rfl
  | approx k => cases k <;> rfl
  | op k => cases k <;> rfl
  | unary k => cases k <;> rfl
  | orange k => cases k <;> rfl
  | _ => rfl

/-- the disjunctions of the propagator configured with a default operation -/
theorem isInstanceOf_orNodes (defaultOr : Bool) (t : Tree) :
    isInstanceOf (propCfg defaultOr).orNodes t = isOrNode defaultOr t := by
  cases defaultOr
  · exact orNodes_defaultAnd t
  · exact orNodes_defaultOr t

/-- `NEGATION_NODES`: exactly `Not` and `Prohibit` -/
theorem negationNodes_spec (t : Tree) : isInstanceOf Generated.negationNodes t = isNeg t := by
  cases t with
  | term k => cases k <;> rfl
  | group k => cases k <;> rfl
  | approx k => cases k <;> rfl
  | op k => cases k <;> rfl
  | unary k => cases k <;> rfl
  | orange k => cases k <;> rfl
  | _ => rfl

theorem isInstanceOf_negNodes (defaultOr : Bool) (t : Tree) :
    isInstanceOf (propCfg defaultOr).negNodes t = isNeg t := negationNodes_spec t

/-- `NO_CHILDREN_PROPAGATE`: exactly `Range`, `Fuzzy`, `Proximity` -/
theorem noChildrenPropagate_spec (t : Tree) :
    isInstanceOf Generated.noChildrenPropagate t = isAtomic t := by
  cases t with
  | term k => cases k <;> rfl
  | group k => cases k <;> rfl
  | approx k => cases k <;> rfl
  | op k => cases k <;> rfl
  | unary k => cases k <;> rfl
  | orange k => cases k <;> rfl
  | _ => rfl

theorem isInstanceOf_noDescend (defaultOr : Bool) (t : Tree) :
    isInstanceOf (propCfg defaultOr).noDescend t = isAtomic t := noChildrenPropagate_spec t

/-- the class tests of the propagator are the pattern matchings `isOrNode`, `isNeg`, `isAtomic` -/
theorem propCfg_spec (defaultOr : Bool) : Lemmas.Propagate.CfgSpec (propCfg defaultOr) defaultOr :=
  ⟨isInstanceOf_orNodes defaultOr, isInstanceOf_negNodes defaultOr, isInstanceOf_noDescend defaultOr⟩

/-! ### Part B — correctness of the propagation -/

/-- meaning of `cover`: the path it returns leads to a term-like node (`Term`, `Range`,
`BaseApprox`) -/
theorem cover_spec : ∀ (t : Tree) (c : List Nat), cover t = some c →
    ∃ n, t.at? c = some n ∧ isTermLike n = true
  | .term k v l, c, h => by simp [cover] at h; subst h; exact ⟨_, at?_nil _, rfl⟩
  | .range a b il ih l, c, h => by simp [cover] at h; subst h; exact ⟨_, at?_nil _, rfl⟩
  | .approx k e n l, c, h => by simp [cover] at h; subst h; exact ⟨_, at?_nil _, rfl⟩
  | .none _, c, h => by simp [cover] at h
  | .op .., c, h => by simp [cover] at h
  | .field _ e _, c, h => by
      simp [cover] at h; obtain ⟨c', hc', rfl⟩ := h
      obtain ⟨n, h1, h2⟩ := cover_spec e c' hc'
      exact ⟨n, by simp [at?_cons, Tree.children, h1], h2⟩
  | .group _ e _, c, h => by
      simp [cover] at h; obtain ⟨c', hc', rfl⟩ := h
      obtain ⟨n, h1, h2⟩ := cover_spec e c' hc'
      exact ⟨n, by simp [at?_cons, Tree.children, h1], h2⟩
  | .boost e _ _, c, h => by
      simp [cover] at h; obtain ⟨c', hc', rfl⟩ := h
      obtain ⟨n, h1, h2⟩ := cover_spec e c' hc'
      exact ⟨n, by simp [at?_cons, Tree.children, h1], h2⟩
  | .unary _ e _, c, h => by
      simp [cover] at h; obtain ⟨c', hc', rfl⟩ := h
      obtain ⟨n, h1, h2⟩ := cover_spec e c' hc'
      exact ⟨n, by simp [at?_cons, Tree.children, h1], h2⟩
  | .orange _ e _ _, c, h => by
      simp [cover] at h; obtain ⟨c', hc', rfl⟩ := h
      obtain ⟨n, h1, h2⟩ := cover_spec e c' hc'
      exact ⟨n, by simp [at?_cons, Tree.children, h1], h2⟩

/-- **C16.** Let `t` satisfy the tree hypotheses, `τ` be any truth assignment of the term-like
nodes, and `matching` / `other` list the named elements (as named by `auto_name`) whose covered term
is true / is not. Then `_propagate` (with either default operation)
* returns the boolean value of the query;
* classifies each visited sub-expression (`visible`) as ok iff its value is true, as ko iff its
  value is false;
* classifies nothing else;
* classifies nothing twice (no duplicate in the two lists together: none in each, and they are
  disjoint). -/
theorem propagate_correct (defaultOr : Bool) (τ : List Nat → Bool) (t : Tree)
    (hg : good false t = true) (matching other : List (List Nat))
    (hm : ∀ p, p ∈ matching ↔ p ∈ named t ∧ coverVal τ t p = true)
    (ho : ∀ p, p ∈ other ↔ p ∈ named t ∧ coverVal τ t p = false) :
    let r := propagate (propCfg defaultOr) matching other [] t
    r.1 = evalT defaultOr τ [] t ∧
    (∀ p n, t.at? p = some n → visible t p = true →
        (p ∈ r.2.1 ↔ evalT defaultOr τ p n = true) ∧ (p ∈ r.2.2 ↔ evalT defaultOr τ p n = false)) ∧
    (∀ p, p ∈ r.2.1 ++ r.2.2 → visible t p = true ∧ ∃ n, t.at? p = some n) ∧
    (r.2.1 ++ r.2.2).Pairwise (· ≠ ·) :=
  Lemmas.Propagate.propagate_spec (propCfg_spec defaultOr) τ t hg matching other
    (Lemmas.Propagate.Ctx.of_iff hm ho)

/-- **C16, with the names of operations reported too.** A named element which covers an operation
(a parenthesised operand `(a OR b)`, `f:(a b)`, `-(a b)` …) has no term of its own; Elasticsearch
reports its name when the clause built for the operation matched, and `matching_from_names` then
lists its path among the matching ones. The conclusion of `propagate_correct` holds for every such
report that is truthful: the named elements which cover a term are in `matching` / `other` according
to the truth of the term (as before); a named element which covers an operation may be in `other` or
in neither list, and may be in `matching` only if that operation is true and no negation lies
strictly between the element and the operation. `propagate_correct` is the case where none is
reported. -/
theorem propagate_correct_reported (defaultOr : Bool) (τ : List Nat → Bool) (t : Tree)
    (hg : good false t = true) (matching other : List (List Nat))
    (hsm : ∀ p, p ∈ matching → p ∈ named t) (hso : ∀ p, p ∈ other → p ∈ named t)
    (hterm : ∀ p c, p ∈ named t → (t.at? p).bind cover = some c →
      (p ∈ matching ↔ τ (p ++ c) = true) ∧ (p ∈ other ↔ τ (p ++ c) = false))
    (hop : ∀ p, p ∈ matching → (t.at? p).bind cover = none →
      (∀ n, t.at? p = some n → negFreeBelow n = true) ∧ coverOpVal defaultOr τ t p = true) :
    let r := propagate (propCfg defaultOr) matching other [] t
    r.1 = evalT defaultOr τ [] t ∧
    (∀ p n, t.at? p = some n → visible t p = true →
        (p ∈ r.2.1 ↔ evalT defaultOr τ p n = true) ∧ (p ∈ r.2.2 ↔ evalT defaultOr τ p n = false)) ∧
    (∀ p, p ∈ r.2.1 ++ r.2.2 → visible t p = true ∧ ∃ n, t.at? p = some n) ∧
    (r.2.1 ++ r.2.2).Pairwise (· ≠ ·) := by
  refine Lemmas.Propagate.propagate_spec (propCfg_spec defaultOr) τ t hg matching other
    ⟨hsm, hso, ?_, ?_, ?_⟩
  · intro p n c hn hat hc
    exact (hterm p c hn (by simp [hat, hc])).1
  · intro p n c hn hat hc
    exact (hterm p c hn (by simp [hat, hc])).2
  · intro p n hp hat hc
    obtain ⟨h1, h2⟩ := hop p hp (by simp [hat, hc])
    have hnf := h1 n hat
    simp only [coverOpVal, hat, Option.bind_some] at h2
    cases hco : coverOp n with
    | none => simp [hco] at h2
    | some c =>
      simp only [hco] at h2
      cases hat2 : t.at? (p ++ c) with
      | none => simp [hat2] at h2
      | some o =>
        simp only [hat2] at h2
        have hoc : n.at? c = some o := by
          have := at?_append t p c
          rw [hat2, hat] at this
          simpa using this.symm
        rw [Lemmas.Propagate.preVal_coverOp defaultOr τ n p c o hnf hco hoc]
        exact h2

/-! ### non-vacuity and necessity of the hypotheses -/

section Examples

private def w (s : String) : Tree := .term .word s.toList {}

/-- `a AND (NOT b)` -/
private def q1 : Tree := .op .and [w "a", .unary .not (w "b") {}] {}

example : good false q1 = true := by decide
example : named q1 = [[0], [1]] := by decide
/-- the named negation `NOT b` covers `b` -/
example : (q1.at? [1]).bind cover = some [0] := by decide
/-- `a` and `b` both match: `matching = [[0], [1]]`; the query is false, `a` and `b` are ok -/
example : propagate (propCfg false) [[0], [1]] [] [] q1 = (false, [[0], [1, 0]], [[1], []]) := by
  decide
example : evalT false (fun _ => true) [] q1 = false := by decide
/-- only `a` matches: the query is true, everything but `b` is ok -/
example : propagate (propCfg false) [[0]] [[1]] [] q1 = (true, [[0], [1], []], [[1, 0]]) := by decide

/-- a query without operation: the root is the named element; `-(x:a~2)` -/
private def q2 : Tree := .unary .prohibit (.group .group (.field "x".toList (.approx .fuzzy (w "a") {} {}) {}) {}) {}

example : good false q2 = true := by decide
example : named q2 = [[]] := by decide
example : propagate (propCfg true) [[]] [] [] q2 = (false, [[0, 0, 0], [0, 0], [0]], [[]]) := by
  decide

/-- `first AND (title:foo OR bar)`: the group is a named element which covers the operation; `first`
and `bar` match, `foo` does not. The group is reported (`[1]` is in `matching`) or not: the same,
right, classification (`title:foo` and `foo` are not matching) -/
private def q3 : Tree :=
  .op .and [w "first", .group .group (.op .or [.field "title".toList (w "foo") {}, w "bar"] {}) {}] {}

example : good false q3 = true := by decide
example : named q3 = [[0], [1], [1, 0, 0], [1, 0, 1]] := by decide
example : (q3.at? [1]).bind cover = none ∧ (q3.at? [1]).bind coverOp = some [0] := by decide
example : coverOpVal false (fun p => p == [0] || p == [1, 0, 1]) q3 [1] = true := by decide
example : propagate (propCfg false) [[0], [1], [1, 0, 1]] [[1, 0, 0]] [] q3 =
    (true, [[0], [1, 0, 1], [1, 0], [1], []], [[1, 0, 0, 0], [1, 0, 0]]) := by decide
example : propagate (propCfg false) [[0], [1, 0, 1]] [[1], [1, 0, 0]] [] q3 =
    (true, [[0], [1, 0, 1], [1, 0], [1], []], [[1, 0, 0, 0], [1, 0, 0]]) := by decide

/-- necessity of "truthful" for a reported operation: `(a AND b) OR c` with only `a` true; were the
group reported, it and the query would be classified matching -/
private def bad3 : Tree := .op .or [.group .group (.op .and [w "a", w "b"] {}) {}, w "c"] {}

example : coverOpVal true (fun p => p == [0, 0, 0]) bad3 [0] = false := by decide
example : (propagate (propCfg true) [[0], [0, 0, 0]] [[0, 0, 1], [1]] [] bad3).1 = true ∧
    evalT true (fun p => p == [0, 0, 0]) [] bad3 = false := by decide

/-- necessity of "no negation strictly between the element and the operation": `(NOT (a b)) OR c`
with `a`, `b` true, the group reported because its operation is true -/
private def bad4 : Tree :=
  .op .or [.group .group (.unary .not (.group .group (.op .and [w "a", w "b"] {}) {}) {}) {}, w "c"] {}

example : negFreeBelow (.group .group (.unary .not (.group .group (.op .and [w "a", w "b"] {}) {}) {}) {}) = false := by
  decide
example : (propagate (propCfg true) [[0], [0, 0, 0, 0, 0], [0, 0, 0, 0, 1]] [[1]] [] bad4).1 = true ∧
    evalT true (fun p => p == [0, 0, 0, 0, 0] || p == [0, 0, 0, 0, 1]) [] bad4 = false := by decide

/-- necessity of "no negation strictly below a named element": `(NOT a) OR b`; when `a` matches,
the group (named, covering `a`) is reported ok although its value is false -/
private def bad1 : Tree := .op .or [.group .group (.unary .not (w "a") {}) {}, w "b"] {}

example : good false bad1 = false := by decide
example : (propagate (propCfg true) [[0]] [[1]] [] bad1).1 = true ∧
    evalT true (fun p => p == [0, 0, 0]) [] bad1 = false := by decide

/-- necessity of "no operation inside a range": the root is term-like and true, nothing names it -/
private def bad2 : Tree := .range (.op .and [w "a", w "b"] {}) (w "c") true true {}

example : good false bad2 = false := by decide
example : named bad2 = [[0, 0], [0, 1]] := by decide
example : (propagate (propCfg true) [] [[0, 0], [0, 1]] [] bad2).1 = false ∧
    evalT true (fun p => p == []) [] bad2 = true := by decide

end Examples

end Luqum.Props.C16
