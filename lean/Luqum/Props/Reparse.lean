/-
  Reparse — the print-and-reparse theorem: printing a tree and parsing the text again gives an equal
  (`==`) tree.  It combines re-lexing (LX: the printed text lexes back into the token texts of the
  tree) and the completeness of the parser (C03c: a token sequence that spells a `Parseable` tree is
  parsed into an equal tree).

  1. `reparse_printed` (any tree, either style of numerals; `reparse_printed_chain` with the chain
     condition instead of the local adjacency condition).
  2. hypotheses checked on the tree: `validTexts`, `validNums`, `numsOK`, `WordsOK`;
     `parseable_respell`; `treeGluesOK_style`; the user-facing corollaries `reparse_str`
     (`item.__str__(head_tail=True)`), `reparse_str_body` (`str(item)`), `reparse_of_printable`.
  3. parsed trees satisfy all the hypotheses (`parse_wsLayout`, `parse_numsOK`, `parse_wordsOK`,
     `parse_validTexts`, `parse_pieces`, `parse_gluesOK`); `parse_print_parse`.
  4. non-vacuity and negative witnesses (kernel-checked).
  The lemmas are in Luqum/Lemmas/Reparse*.lean.
-/
import Luqum.Lemmas.ReparseValid
import Luqum.Lemmas.ReparseGlue
import Luqum.Lemmas.ReparseRun
import Luqum.Lemmas.ReparseBare
import Luqum.Props.LX
import Luqum.Props.C03c

namespace Luqum.Props.Reparse
open Luqum
open Luqum.Props.LX (treePieces treeTrail treeGluesOK WsLayout)
open Luqum.Props.C03c (Parseable TextOK)
open Luqum.Props.C01 (respell noBlankBeforeColon)

/-! ### definitions (from Luqum/Lemmas/Reparse*.lean) -/

export Luqum (numsOK decOK intOK shortSig WordsOK SrcNumsOK validTexts validNums bare)

/-- a degree of `Fuzzy` / a force of `Boost` is fine when it is implicit and equal to the default of
the class, or explicit, not negative and of at most `decPrec` = 28 significant digits -/
example (dflt : Dec) (n : Num) : decOK dflt n =
    (if n.implicit then n.val.numEq dflt
     else !n.val.neg && decide ((natDigits n.val.canon.coeff).length ≤ decPrec)) := rfl

/-- a degree of `Proximity` is fine when it is implicit and equal to 1, or explicit, not negative,
printed without a dot and with at most `intMaxStrDigits` digits -/
example (n : Num) : intOK n =
    (if n.implicit then n.val.numEq { coeff := 1 }
     else !n.val.neg && decide (0 ≤ n.val.exp) &&
       decide (n.val.render.length ≤ intMaxStrDigits)) := rfl

example (e : Tree) (n : Num) (l : Lay) :
    numsOK (.approx .fuzzy e n l) = (decOK Compl.fuzzyDflt n && numsOK e) ∧
    numsOK (.approx .proximity e n l) = (intOK n && numsOK e) ∧
    numsOK (.boost e n l) = (decOK Compl.boostDflt n && numsOK e) := ⟨rfl, rfl, rfl⟩

example (v n : Str) (e : Tree) (l : Lay) :
    validTexts (.term .word v l) = validTok (reservedKind v) v ∧
    validTexts (.term .phrase v l) = validTok .phrase v ∧
    validTexts (.term .regex v l) = validTok .regex v ∧
    validTexts (.field n e l) = (validTok .term n && validTexts e) := ⟨rfl, rfl, rfl, rfl⟩

example (s : NumStyle) (k : ApxK) (e : Tree) (n : Num) (l : Lay) :
    validNums s (.approx k e n l) = (validTok .approx ('~' :: n.text s) && validNums s e) ∧
    validNums s (.boost e n l) = (validTok .boost ('^' :: n.text s) && validNums s e) := ⟨rfl, rfl⟩

/-- the tree printed without the head and the tail of its root -/
example (u : Tree) : bare u = u.setLay { u.lay with head := [], tail := [] } := rfl

/-- the tree whose ghost spellings of numerals are those printed in style `s`: the tree itself for
the source style, `respell` (the numerals as the implementation prints them) for `.norm` -/
def spelled : NumStyle → Tree → Tree
  | .raw, u => u
  | .norm, u => respell u

/-! ### the two styles -/

/-- the pieces of a tree printed in style `s` are the pieces, in the source style, of `spelled s` -/
theorem pieces_spelled (s : NumStyle) (u : Tree) :
    treePieces s u = treePieces .raw (spelled s u) ∧ treeTrail s u = treeTrail .raw (spelled s u) := by
  cases s
  · unfold treePieces treeTrail spelled
    rw [Tree.pcs_respell u []]
    exact ⟨rfl, rfl⟩
  · exact ⟨rfl, rfl⟩

theorem full_spelled (s : NumStyle) (u : Tree) : u.full s = (spelled s u).full .raw := by
  cases s
  · exact C01.print_norm_eq_raw_respelled u
  · rfl

/-- **the keys of the pieces in style `s` are the yield of `spelled s`** (`LX.tree_keys` for
`.raw`) -/
theorem keys_spelled (s : NumStyle) (u : Tree) :
    (treePieces s u).map Piece.key = yield (spelled s u) := by
  rw [(pieces_spelled s u).1]
  exact LX.tree_keys _

/-- the numerals of `respell u` have the values of those of `u`: the trees are equal (`==`) -/
theorem eqv_spelled (s : NumStyle) (u : Tree) : (spelled s u).eqv u = true := by
  cases s
  · exact eqv_respell u
  · exact C09.eqv_refl u

theorem wsLayout_spelled (s : NumStyle) (u : Tree) : WsLayout (spelled s u) ↔ WsLayout u := by
  cases s
  · unfold WsLayout spelled
    rw [Tree.blankLayout_respell]
  · exact Iff.rfl

/-- **the adjacency condition of a tree does not depend on the style of the numerals** (nothing
looks past the `~` / `^` of a numeral token) -/
theorem treeGluesOK_style (u : Tree) : treeGluesOK .norm u = treeGluesOK .raw u :=
  Tree.gluesOK_style u

theorem treeGluesOK_any (s : NumStyle) (u : Tree) : treeGluesOK s u = treeGluesOK .raw u := by
  cases s
  · exact treeGluesOK_style u
  · rfl

/-! ### (1) printing and parsing again -/

/-- **print-and-reparse, chain form**: for ANY tree `u` (built by a program or returned by the
parser) with a blank layout, whose spelled form is `Parseable`, whose token texts are valid and whose
pieces satisfy the chain condition: the printed tree (either style of numerals) parses, and the
result is equal (`==`) to `u`; moreover the result has the yield of the spelled tree -/
theorem reparse_printed_chain (s : NumStyle) (u : Tree) (hws : WsLayout u)
    (hp : Parseable (spelled s u) = true)
    (hvalid : ∀ p ∈ treePieces s u, validTok p.kind p.text = true)
    (hchain : chainOK (treePieces s u) (treeTrail s u) = true) :
    ∃ r, parse (u.full s) = .ok r ∧ r.eqv u = true ∧ yield r = yield (spelled s u) := by
  obtain ⟨h1, h2⟩ := LX.tree_seps_blank s u hws
  obtain ⟨hl, hk⟩ := LX.spelling _ _ h2 h1 hvalid hchain
  rw [← LX.tree_spelling s u] at hl hk
  have hk' : (lex (u.full s)).1.map tokKey = yield (spelled s u) := by
    rw [hk, ← keys_spelled s u]; rfl
  obtain ⟨r, hr, he⟩ := C03c.parse_complete_str (u.full s) (spelled s u) hp hl hk'
  exact ⟨r, hr, C09.eqv_trans _ _ _ he (eqv_spelled s u), by rw [← Luqum.parse_yield _ _ hr, hk']⟩

/-- **print-and-reparse**: the same with the local adjacency condition `treeGluesOK` (only the
tokens that are not preceded by a separator are checked) -/
theorem reparse_printed (s : NumStyle) (u : Tree) (hws : WsLayout u)
    (hp : Parseable (spelled s u) = true)
    (hvalid : ∀ p ∈ treePieces s u, validTok p.kind p.text = true)
    (hglue : treeGluesOK s u = true) :
    ∃ r, parse (u.full s) = .ok r ∧ r.eqv u = true := by
  obtain ⟨h1, h2⟩ := LX.tree_seps_blank s u hws
  obtain ⟨r, hr, he, _⟩ := reparse_printed_chain s u hws hp hvalid
    (LX.chainOK_of_gluesOK _ _ h2 h1 hvalid hglue)
  exact ⟨r, hr, he⟩

/-- the source style: `spelled .raw u = u` -/
theorem reparse_printed_raw (u : Tree) (hws : WsLayout u) (hp : Parseable u = true)
    (hvalid : ∀ p ∈ treePieces .raw u, validTok p.kind p.text = true)
    (hglue : treeGluesOK .raw u = true) :
    ∃ r, parse (u.full .raw) = .ok r ∧ r.eqv u = true :=
  reparse_printed .raw u hws hp hvalid hglue

/-- the implementation's style (`item.__str__(head_tail=True)`): `spelled .norm u = respell u` -/
theorem reparse_printed_norm (u : Tree) (hws : WsLayout u) (hp : Parseable (respell u) = true)
    (hvalid : ∀ p ∈ treePieces .norm u, validTok p.kind p.text = true)
    (hglue : treeGluesOK .norm u = true) :
    ∃ r, parse u.strHT = .ok r ∧ r.eqv u = true :=
  reparse_printed .norm u hws hp hvalid hglue

/-! ### (2) the hypotheses, checked on the tree -/

/-- **valid texts**: if the words, phrases, regexes and field names of the tree are valid token
texts, and the `~…` / `^…` tokens are (in the style printed), every piece is a valid token text -/
theorem pieces_valid (s : NumStyle) (u : Tree) (ht : validTexts u = true) (hn : validNums s u = true) :
    ∀ p ∈ treePieces s u, validTok p.kind p.text = true :=
  Tree.pcs_valid s u [] ht hn

/-- the `~…` / `^…` tokens the implementation prints for good numerals are valid token texts -/
theorem validNums_of_numsOK (u : Tree) (h : numsOK u = true) : validNums .norm u = true :=
  validNums_norm u h

/-- `TextOK` is the conjunction of its part about words (`WordsOK`, which does not look at the
numerals) and its part about the source spelling of the numerals -/
theorem textOK_split (u : Tree) : TextOK u = (WordsOK u && SrcNumsOK u) := Luqum.textOK_split u

theorem parseable_split (u : Tree) :
    Parseable u = (CanonAt false u && WordsOK u && SrcNumsOK u) := by
  simp only [Parseable, Luqum.Compl.Parseable, Luqum.textOK_split, Bool.and_assoc]

/-- **the re-spelled tree is `Parseable`** under conditions on `u` that do not mention the ghost
spelling `raw` of the numerals: canonical form, words, and `numsOK` -/
theorem parseable_respell (u : Tree) (hc : CanonAt false u = true) (hw : WordsOK u = true)
    (hn : numsOK u = true) : Parseable (respell u) = true := by
  simp only [Parseable, Luqum.Compl.Parseable, Bool.and_eq_true]
  exact ⟨by rw [canonAt_respell]; exact hc, textOK_respell u hw hn⟩

/-- **print-and-reparse for `item.__str__(head_tail=True)`**, all hypotheses decidable and stated
on the tree -/
theorem reparse_str (u : Tree) (hws : WsLayout u) (hc : CanonAt false u = true)
    (hw : WordsOK u = true) (hn : numsOK u = true) (ht : validTexts u = true)
    (hglue : treeGluesOK .norm u = true) :
    ∃ r, parse u.strHT = .ok r ∧ r.eqv u = true :=
  reparse_printed_norm u hws (parseable_respell u hc hw hn)
    (pieces_valid .norm u ht (validNums_of_numsOK u hn)) hglue

/-- the hypotheses of `reparse_str` as one Bool -/
def printable (u : Tree) : Bool :=
  u.blankLayout && CanonAt false u && WordsOK u && numsOK u && validTexts u && treeGluesOK .norm u

theorem reparse_of_printable (u : Tree) (h : printable u = true) :
    ∃ r, parse u.strHT = .ok r ∧ r.eqv u = true := by
  simp only [printable, Bool.and_eq_true] at h
  obtain ⟨⟨⟨⟨⟨h1, h2⟩, h3⟩, h4⟩, h5⟩, h6⟩ := h
  exact reparse_str u h1 h2 h3 h4 h5 h6

/-- `str(item)` prints the tree without the head and the tail of its root -/
theorem str_eq_bare (u : Tree) : u.str = (bare u).strHT := Tree.body_eq_bare .norm u

/-- the hypotheses of `reparse_str` pass from `u` to `bare u` -/
theorem printable_bare (u : Tree) (h : printable u = true) : printable (bare u) = true := by
  simp only [printable, Bool.and_eq_true] at h ⊢
  obtain ⟨⟨⟨⟨⟨h1, h2⟩, h3⟩, h4⟩, h5⟩, h6⟩ := h
  refine ⟨⟨⟨⟨⟨blankLayout_bare u h1, ?_⟩, ?_⟩, ?_⟩, ?_⟩, ?_⟩
  · rw [canonAt_bare]; exact h2
  · rw [wordsOK_bare]; exact h3
  · rw [numsOK_bare]; exact h4
  · rw [validTexts_bare]; exact h5
  · unfold treeGluesOK treePieces treeTrail at h6 ⊢
    rw [Tree.gluesOK_bare .norm u h1]; exact h6

/-- **print-and-reparse for `str(item)`** (the root printed without its own head and tail): same
hypotheses, on `u` itself -/
theorem reparse_str_body (u : Tree) (hws : WsLayout u) (hc : CanonAt false u = true)
    (hw : WordsOK u = true) (hn : numsOK u = true) (ht : validTexts u = true)
    (hglue : treeGluesOK .norm u = true) :
    ∃ r, parse u.str = .ok r ∧ r.eqv u = true := by
  have hp : printable u = true := by simp [printable, hws, hc, hw, hn, ht, hglue]
  obtain ⟨r, hr, he⟩ := reparse_of_printable (bare u) (printable_bare u hp)
  rw [str_eq_bare]
  exact ⟨r, hr, C09.eqv_trans _ _ _ he (C09.eqv_setLay u _)⟩

/-! ### (3) parsed trees satisfy the hypotheses -/

/-- **every head and tail of a parsed tree is a run of `\s`** -/
theorem parse_wsLayout (s : Str) (t : Tree) (h : parse s = .ok t) : WsLayout t :=
  (parse_rval s t h).1

/-- **the numerals of a parsed tree are fine**: `Decimal(raw).normalize()` is not negative and has
at most `decPrec` significant digits (it is rounded, finding KF2, before it is stored), `int(raw)` is
printed with no more digits than `raw` -/
theorem parse_numsOK (s : Str) (t : Tree) (h : parse s = .ok t) : numsOK t = true :=
  (parse_rval s t h).2

theorem parse_canon (s : Str) (t : Tree) (h : parse s = .ok t) : CanonAt false t = true := by
  have := C03c.parse_parseable s t h
  simp only [Parseable, Luqum.Compl.Parseable, Bool.and_eq_true] at this
  exact this.1

theorem parse_wordsOK (s : Str) (t : Tree) (h : parse s = .ok t) : WordsOK t = true := by
  have := C03c.parse_parseable s t h
  rw [parseable_split] at this
  simp only [Bool.and_eq_true] at this
  exact this.1.2

/-- the texts of a parsed tree are valid token texts (they are the texts of the tokens) -/
theorem parse_validTexts (s : Str) (t : Tree) (h : parse s = .ok t) :
    validTexts t = true ∧ validNums .raw t = true := by
  apply validTexts_of_yield
  intro kx hkx
  rw [← Luqum.parse_yield s t h] at hkx
  obtain ⟨tk, htk, rfl⟩ := List.mem_map.1 hkx
  exact LX.lex_validTok s tk htk

/-- hence the re-spelled parse tree is `Parseable` (the parse tree itself is: `parse_parseable`) -/
theorem parse_parseable_respell (s : Str) (t : Tree) (h : parse s = .ok t) :
    Parseable (respell t) = true :=
  parseable_respell t (parse_canon s t h) (parse_wordsOK s t h) (parse_numsOK s t h)

theorem parse_toks_ne (s : Str) (t : Tree) (h : parse s = .ok t) : (lex s).1 ≠ [] := by
  intro hnil
  unfold parse parseWith at h
  rcases hlex : lex s with ⟨toks, lerr⟩
  rw [hlex] at h hnil
  simp only at h hnil
  subst hnil
  split at h
  · rename_i t' hrun
    exact runLoop_nil _ _ _ _ _ hrun
  · cases h
  · cases h

/-- **the pieces of a parsed tree are the pieces of the input** (when no separator stands directly
before a `:`, finding KF1): the tokens with the separators the lexer found between them -/
theorem parse_pieces (s : Str) (t : Tree) (h : parse s = .ok t)
    (hk : noBlankBeforeColon (lex s).1 = true) :
    treePieces .raw t = piecesOf (lex s).1 ∧ treeTrail .raw t = trailOf (lex s).1 := by
  have hl := C01.parse_ok_no_lexErr s t h
  obtain ⟨hs, htr, hb, hv, _⟩ := LX.lex_roundtrip s hl (parse_toks_ne s t h)
  obtain ⟨hb', _⟩ := LX.tree_seps_blank .raw t (parse_wsLayout s t h)
  have hfull := C01.parse_lossless_partial s t h hk
  rw [LX.tree_spelling .raw t] at hfull
  refine spell_inj _ _ _ _ ?_ hb' hb ?_ (hfull.trans hs)
  · rw [LX.tree_keys, piecesOf_keys, Luqum.parse_yield s t h]
  · exact pieces_valid .raw t (parse_validTexts s t h).1 (parse_validTexts s t h).2

/-- **the adjacency condition holds for a parsed tree** (up to KF1) -/
theorem parse_gluesOK (s : Str) (t : Tree) (h : parse s = .ok t)
    (hk : noBlankBeforeColon (lex s).1 = true) : treeGluesOK .raw t = true := by
  have hl := C01.parse_ok_no_lexErr s t h
  obtain ⟨_, _, _, hv, hc⟩ := LX.lex_roundtrip s hl (parse_toks_ne s t h)
  obtain ⟨h1, h2⟩ := parse_pieces s t h hk
  unfold treeGluesOK
  rw [h1, h2]
  refine gluesOK_of_chainOK _ _ (fun p hp => ?_) hc
  obtain ⟨c, xs, hx, _⟩ := validTok_cons (hv p hp)
  rw [hx]; simp

/-- all the hypotheses of `reparse_str` hold for a parsed tree (up to KF1) -/
theorem parse_printable (s : Str) (t : Tree) (h : parse s = .ok t)
    (hk : noBlankBeforeColon (lex s).1 = true) : printable t = true := by
  simp only [printable, Bool.and_eq_true]
  exact ⟨⟨⟨⟨⟨parse_wsLayout s t h, parse_canon s t h⟩, parse_wordsOK s t h⟩, parse_numsOK s t h⟩,
    (parse_validTexts s t h).1⟩, by rw [treeGluesOK_style]; exact parse_gluesOK s t h hk⟩

/-- **parse, print, parse**: printing a parsed tree (`item.__str__(head_tail=True)`) and parsing the
text again gives an equal tree (up to KF1: no separator directly before a `:` in the input).  The
numerals are re-spelled, so the printed text is not the input in general. -/
theorem parse_print_parse (s : Str) (t : Tree) (h : parse s = .ok t)
    (hk : noBlankBeforeColon (lex s).1 = true) :
    ∃ r, parse t.strHT = .ok r ∧ r.eqv t = true :=
  reparse_of_printable t (parse_printable s t h hk)

/-- the same for `str(item)` -/
theorem parse_print_parse_body (s : Str) (t : Tree) (h : parse s = .ok t)
    (hk : noBlankBeforeColon (lex s).1 = true) :
    ∃ r, parse t.str = .ok r ∧ r.eqv t = true := by
  have hp := parse_printable s t h hk
  simp only [printable, Bool.and_eq_true] at hp
  obtain ⟨⟨⟨⟨⟨h1, h2⟩, h3⟩, h4⟩, h5⟩, h6⟩ := hp
  exact reparse_str_body t h1 h2 h3 h4 h5 h6

/-- in the source spelling the text printed is the input, so this is just `parse s` again -/
theorem parse_print_parse_raw (s : Str) (t : Tree) (h : parse s = .ok t)
    (hk : noBlankBeforeColon (lex s).1 = true) :
    ∃ r, parse (t.full .raw) = .ok r ∧ r.eqv t = true :=
  reparse_printed_raw t (parse_wsLayout s t h) (C03c.parse_parseable s t h)
    (pieces_valid .raw t (parse_validTexts s t h).1 (parse_validTexts s t h).2)
    (parse_gluesOK s t h hk)

/-! ### (4) non-vacuity and negative witnesses (kernel-checked) -/

private def w (s : String) (h : String := "") (t : String := "") : Tree :=
  .term .word s.toList { head := h.toList, tail := t.toList }
private def ph (s : String) (h : String := "") (t : String := "") : Tree :=
  .term .phrase s.toList { head := h.toList, tail := t.toList }
private def hd (h : String) : Lay := { head := h.toList }

/-- a tree built by hand, with blanks where they are needed: AND, OR, the implicit operation, NOT,
`+`, `-`, a field, a field group, a group, a range, a fuzzy (implicit degree), a proximity, boosts,
`>=`, `<`, a regex and `TO` as a term; the ghost spellings `2.0`, `03`, `2.50` are not what is
printed -/
def sample : Tree :=
  .op .unk [
    .op .or [
      .op .and [w "a" "" " ", .unary .not (w "b" " " " ") (hd " ")] {},
      .unary .plus (.boost (.approx .fuzzy (w "c") { val := Compl.fuzzyDflt, implicit := true } {})
        { val := { coeff := 2 }, raw := "2.0".toList } {}) (hd " ")] {},
    .unary .prohibit (.field "f".toList
      (.group .fieldGroup (.op .unk [w "x", ph "\"y z\"" " "] {}) {}) {}) (hd " "),
    .group .group (.range (.unary .prohibit (w "1" "" " ") {}) (ph "\"9\"" " ") true false {}) (hd " "),
    .approx .proximity (ph "\"p q\"" " ") { val := { coeff := 3 }, raw := "03".toList } {},
    .boost (.orange .from (w "5") true (hd " "))
      { val := { coeff := 25, exp := -1 }, raw := "2.50".toList } {},
    .orange .to (w "6") false (hd " "),
    .term .regex "/re/".toList (hd " "),
    w "TO" " "] { head := "  ".toList, tail := " ".toList }

/-- what is printed: with heads and tails, without those of the root, and in the source style -/
example :
    sample.strHT =
      "  a AND NOT b OR +c~^2 -f:(x \"y z\") ([-1 TO \"9\"}) \"p q\"~3 >=5^2.5 <6 /re/ TO ".toList ∧
    sample.str =
      "a AND NOT b OR +c~^2 -f:(x \"y z\") ([-1 TO \"9\"}) \"p q\"~3 >=5^2.5 <6 /re/ TO".toList ∧
    sample.full .raw =
      "  a AND NOT b OR +c~^2.0 -f:(x \"y z\") ([-1 TO \"9\"}) \"p q\"~03 >=5^2.50 <6 /re/ TO ".toList := by
  decide +kernel

/-- non-vacuity of `reparse_str` / `reparse_of_printable`: every hypothesis holds for the sample -/
example : WsLayout sample ∧ CanonAt false sample = true ∧ WordsOK sample = true ∧
    numsOK sample = true ∧ validTexts sample = true ∧ treeGluesOK .norm sample = true ∧
    printable sample = true := by decide +kernel

/-- ... so the printed sample parses into an equal tree, by the theorems -/
example : ∃ r, parse sample.strHT = .ok r ∧ r.eqv sample = true :=
  reparse_of_printable sample (by decide +kernel)
example : ∃ r, parse sample.str = .ok r ∧ r.eqv sample = true :=
  reparse_str_body sample (by decide +kernel) (by decide +kernel) (by decide +kernel)
    (by decide +kernel) (by decide +kernel) (by decide +kernel)

/-- non-vacuity of `reparse_printed` in both styles (hypotheses on the pieces) -/
example : ∃ r, parse (sample.full .raw) = .ok r ∧ r.eqv sample = true :=
  reparse_printed .raw sample (by decide +kernel) (by decide +kernel)
    (fun p hp => by
      have : ((treePieces .raw sample).all fun p => validTok p.kind p.text) = true := by decide +kernel
      exact List.all_eq_true.1 this p hp)
    (by decide +kernel)
example : ∃ r, parse (sample.full .norm) = .ok r ∧ r.eqv sample = true :=
  reparse_printed .norm sample (by decide +kernel) (by decide +kernel)
    (fun p hp => by
      have : ((treePieces .norm sample).all fun p => validTok p.kind p.text) = true := by decide +kernel
      exact List.all_eq_true.1 this p hp)
    (by decide +kernel)

/-- cross-check by evaluation -/
example :
    (match parse sample.strHT with | .ok r => r.eqv sample | .error _ => false) = true ∧
    (match parse sample.str with | .ok r => r.eqv sample | .error _ => false) = true := by
  decide +kernel

/-- non-vacuity of `parseable_respell`, and the keys of the pieces in the implementation's style -/
example : Parseable (respell sample) = true ∧ Parseable sample = true ∧
    (treePieces .norm sample).map Piece.key = yield (respell sample) ∧
    yield (respell sample) ≠ yield sample := by decide +kernel

/-- a parsed tree: the hypotheses of (3) hold, the printed tree is not the input (`2.50`, `03`), and
it parses into an equal tree -/
private def input : Str := "  a  AND (f:[1 TO  5}^2.50   OR \"x y\"~03 ) -z~ T12:30 ".toList

example :
    (match parse input with
     | .ok t => printable t && Parseable (respell t) && validNums .raw t &&
         decide (treePieces .raw t = piecesOf (lex input).1) &&
         decide (t.strHT = "  a  AND (f:[1 TO  5}^2.5   OR \"x y\"~3 ) -z~ T12:30 ".toList) &&
         (match parse t.strHT with | .ok r => r.eqv t | .error _ => false)
     | .error _ => false) = true ∧
    noBlankBeforeColon (lex input).1 = true := by decide +kernel

example : ∀ t, parse input = .ok t → ∃ r, parse t.strHT = .ok r ∧ r.eqv t = true :=
  fun t h => parse_print_parse input t h (by decide +kernel)

/-- negative witnesses: each tree fails exactly one hypothesis of `reparse_str`
(`[blank layout, canonical, words, numerals, valid texts, adjacency]`), and is printed as a text that
does not parse into an equal tree -/
private def checks (u : Tree) : List Bool :=
  [u.blankLayout, CanonAt false u, WordsOK u, numsOK u, validTexts u, treeGluesOK .norm u]

private def reparses (u : Tree) : Bool :=
  match parse u.strHT with
  | .ok r => r.eqv u
  | .error _ => false

/-- blank layout: a head that is not blank -/
example : checks (w "a" "x") = [false, true, true, true, true, true] ∧ reparses (w "a" "x") = false := by
  decide +kernel

/-- canonical form: `a AND (b OR c)` without the parentheses -/
example :
    let u : Tree := .op .and [w "a" "" " ", .op .or [w "b" " " " ", w "c" " "] {}] {}
    checks u = [true, false, true, true, true, true] ∧ u.strHT = "a AND b OR c".toList ∧
    reparses u = false := by decide +kernel

/-- words: the word `AND` (a valid token text, but of the kind `AND_OP`) -/
example :
    let u : Tree := .op .unk [w "a", w "AND" " ", w "b" " "] {}
    checks u = [true, true, false, true, true, true] ∧ u.strHT = "a AND b".toList ∧
    reparses u = false := by decide +kernel

/-- valid texts: the word `a b` -/
example : checks (w "a b") = [true, true, true, true, false, true] ∧ reparses (w "a b") = false := by
  decide +kernel

/-- adjacency (KF8): the field `T12` with the value `30` and no separator is printed `T12:30`, one
word; with a blank head it is fine -/
example :
    let u (h : String) : Tree := .field "T12".toList (w "30" h) {}
    checks (u "") = [true, true, true, true, true, false] ∧ reparses (u "") = false ∧
    checks (u " ") = [true, true, true, true, true, true] ∧ reparses (u " ") = true := by
  decide +kernel

/-- numerals (KF2): a force of 30 significant digits is printed in full and read back rounded -/
example :
    let u : Tree := .boost (w "a") { val := { coeff := 123456789012345678901234567891 } } {}
    checks u = [true, true, true, false, true, true] ∧
    u.strHT = "a^123456789012345678901234567891".toList ∧ reparses u = false ∧
    (parse u.strHT).map Tree.strHT = .ok "a^123456789012345678901234567900".toList := by
  decide +kernel

/-- numerals: a negative force is printed `^-1` (a boost without number, then a prohibition); an
implicit force that is not 1 is printed `^`; a proximity degree `1.5` is a syntax error -/
example :
    let neg : Tree := .boost (w "a") { val := { neg := true, coeff := 1 } } {}
    let imp : Tree := .boost (w "a") { val := { coeff := 2 }, implicit := true } {}
    let prox : Tree := .approx .proximity (ph "\"a b\"") { val := { coeff := 15, exp := -1 } } {}
    checks neg = [true, true, true, false, true, true] ∧ reparses neg = false ∧
    checks imp = [true, true, true, false, true, true] ∧ reparses imp = false ∧
    checks prox = [true, true, true, false, true, true] ∧
    (match parse prox.strHT with
     | .error e => decide (e = .badNumber "1.5".toList 5)
     | .ok _ => false) = true := by decide +kernel

/-- the hypothesis KF1 of `parse_print_parse` is needed: `T12 :30` is a field; its tree is printed
`T12:30` (the blank before the `:` is lost, KF1), which is one word (KF8) -/
example :
    noBlankBeforeColon (lex "T12 :30".toList).1 = false ∧
    (match parse "T12 :30".toList with
     | .ok t => decide (t.strHT = "T12:30".toList) && !treeGluesOK .raw t && !reparses t
     | .error _ => false) = true := by decide +kernel

end Luqum.Props.Reparse
