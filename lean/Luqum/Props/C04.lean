/-
  C04 — parsing is total and pure, independent of history.

  (1) `parse s` is a total function whose outcome is a tree, a `ParseSyntaxError` or an
      `IllegalCharacterError` -- never a model-internal error (Luqum.Lemmas.ParseTotal: fuel
      sufficiency by a measure, LR stack consistency of the generated tables).
  (2) History independence.  `luqum.parser.parse` / `luqum.thread.parse` run on a long-lived, mutable
      PLY lexer object that carries, besides `lexdata`/`lexpos`, the `HeadTailLexer` instance of the
      previous call (attribute `_luqum_headtail`, never reset by `input()`).  Model:
      `Luqum.Model.Stateful`.  Whatever that state is, a call behaves like the pure `parse`.
-/
import Luqum.Model.Stateful
import Luqum.Model.ParserInst
import Luqum.Lemmas.Stateful
import Luqum.Lemmas.ParseTotal

namespace Luqum.Props.C04
open Luqum

/-- the empty input is a syntax error at the end -/
theorem parse_empty : parse [] = .error .syntaxEnd := by rfl

/-! ### (1) totality: a tree, a `ParseSyntaxError` or an `IllegalCharacterError`, nothing else -/

/-- the exception classes of the errors of luqum -/
theorem render_class (e : ParseErr) (h : ∀ m, e ≠ .internal m) :
    e.render.1 = "ParseSyntaxError" ∨ e.render.1 = "IllegalCharacterError" := by
  cases e with
  | illegalChar pos rest => exact Or.inr rfl
  | syntaxAt text pos => exact Or.inl rfl
  | syntaxEnd => exact Or.inl rfl
  | badNumber text pos => exact Or.inl rfl
  | internal m => exact absurd rfl (h m)

/-- `parse` never reports a model-internal error ("out of fuel", "shift on end of input", "value
stack underflow", "no goto", "accept on empty stack", "token value as result", "no action ... for
these values"): for every input -/
theorem parse_never_internal (s : Str) (m : String) : parse s ≠ .error (.internal m) :=
  Luqum.parse_never_internal s m

/-- **totality**: for every input, `parse` returns a tree or raises one of the two exception classes
of luqum -/
theorem parse_total (s : Str) :
    (∃ t, parse s = .ok t) ∨
    (∃ e, parse s = .error e ∧ (∀ m, e ≠ .internal m) ∧
      (e.render.1 = "ParseSyntaxError" ∨ e.render.1 = "IllegalCharacterError")) := by
  cases h : parse s with
  | ok t => exact Or.inl ⟨t, rfl⟩
  | error e =>
    have hne : ∀ m, e ≠ .internal m := fun m he => parse_never_internal s m (by rw [h, he])
    exact Or.inr ⟨e, rfl, hne, render_class e hne⟩

/-- the same, spelled out: the possible outcomes of `parse` -/
theorem parse_outcomes (s : Str) :
    (∃ t, parse s = .ok t) ∨ (∃ pos rest, parse s = .error (.illegalChar pos rest)) ∨
    (∃ text pos, parse s = .error (.syntaxAt text pos)) ∨ parse s = .error .syntaxEnd ∨
    (∃ text pos, parse s = .error (.badNumber text pos)) := by
  cases h : parse s with
  | ok t => exact Or.inl ⟨t, rfl⟩
  | error e =>
    cases e with
    | illegalChar pos rest => exact Or.inr (Or.inl ⟨_, _, rfl⟩)
    | syntaxAt text pos => exact Or.inr (Or.inr (Or.inl ⟨_, _, rfl⟩))
    | syntaxEnd => exact Or.inr (Or.inr (Or.inr (Or.inl rfl)))
    | badNumber text pos => exact Or.inr (Or.inr (Or.inr (Or.inr ⟨_, _, rfl⟩)))
    | internal m => exact absurd h (parse_never_internal s m)

/-- `parse` is a function: equal inputs, equal outcomes (purity is definitional in the model; the
content is part (2): the stateful Python objects compute this function) -/
theorem parse_deterministic (s₁ s₂ : Str) (h : s₁ = s₂) : parse s₁ = parse s₂ := by rw [h]

/-- non-vacuity: each class of outcome occurs -/
example : (parse "a".toList).isOk = true := by decide +kernel
example : (match parse "(a".toList with | .error .syntaxEnd => true | _ => false) = true := by
  decide +kernel
example : (match parse "a \\".toList with | .error (.illegalChar 2 _) => true | _ => false) = true := by
  decide +kernel
example : (match parse "a )".toList with | .error (.syntaxAt _ 2) => true | _ => false) = true := by
  decide +kernel
example : (match parse "a~1.2.3".toList with | .error (.badNumber _ _) => true | _ => false) = true := by
  decide +kernel

/-! ### (2) history independence -/

/-- **history independence of the lexer.**  For EVERY previous lexer state `st` -- stale tracker with
a pending head and a `last_elt` of an older call, `pos` mid-input, no tracker at all -- the tokens
and the lexer error of a call on `s` are those of the pure `lex s`.  In particular the branches of
the stateful model that misbehave on a stale tracker (tail appended to a token of an older call,
left-over head applied, `AttributeError`) are unreachable.

This covers the state left by an illegal character: `t_error` raises in the middle of the input, so
the lexer keeps `lexpos` at the offending offset and its tracker as it was at that point; that is
just one of the `st` quantified over here. -/
theorem lex_history_independent (st : LexerState) (s : Str) : (lexFrom st s).1 = lex s :=
  lexFrom_eq st s

/-- the reason: the first lexeme of any input starts at offset 0, because `input()` resets `lexpos`;
at offset 0 `HeadTailLexer.handle` does not read the stored tracker but replaces it -/
theorem first_lexeme_at_zero (st : LexerState) (s : Str) :
    (st.input s).pos = 0 ∧ ∀ tr, ({ st.input s with tracker := tr } : LexerState).fetch 0 = some Tracker.fresh :=
  ⟨rfl, fun _ => rfl⟩

/-- for the empty input no token is produced and the stored tracker is neither read nor replaced -/
theorem lex_empty_keeps_tracker (st : LexerState) :
    lexFrom st [] = (([], none), { data := [], pos := 1, tracker := st.tracker.map Tracker.age }) := rfl

/-- the stored `lexdata` / `lexpos` of the previous call are irrelevant even for the final state -/
theorem lexFrom_ignores_data_pos (st : LexerState) (d : Str) (p : Nat) (s : Str) :
    lexFrom { st with data := d, pos := p } s = lexFrom st s := rfl

/-- **history independence of `parse`.**  A call on a lexer found in any state yields `parse s`. -/
theorem parseCall_eq_parse (st : LexerState) (s : Str) : (parseCall st s).1 = parse s := by
  unfold parseCall parse parseWith
  simp only [lexFrom_eq]
  rfl

/-- a whole history of calls on the same lexer object, starting from any state: every call yields
the pure `parse` of its own input -/
theorem parseSeq_eq_map (st : LexerState) (history : List Str) :
    (parseSeq st history).1 = history.map parse := by
  induction history generalizing st with
  | nil => rfl
  | cons s rest ih =>
    simp only [parseSeq, List.map_cons, parseCall_eq_parse, ih]

/-- the outcome of the last call of a history is `parse` of the last input -/
theorem last_call_eq_parse (st : LexerState) (history : List Str) (s : Str) :
    (parseSeq st (history ++ [s])).1.getLast? = some (parse s) := by
  rw [parseSeq_eq_map]
  simp

/-- every call of a history, by index -/
theorem nth_call_eq_parse (st : LexerState) (history : List Str) (i : Nat) :
    (parseSeq st history).1[i]? = history[i]?.map parse := by
  rw [parseSeq_eq_map]
  simp

/-- The model runs the lexer eagerly, Python lazily: after a syntax error the real lexer stops in the
middle of the input, so the state handed to the next call need not be the `(parseCall st s).2` that
`parseSeq` threads.  It does not matter: the calls may start from ANY states (chosen adversarially,
even depending on everything before). -/
theorem calls_from_any_states (calls : List (LexerState × Str)) :
    calls.map (fun c => (parseCall c.1 c.2).1) = calls.map (fun c => parse c.2) := by
  simp only [parseCall_eq_parse]

/-- **the two entry points agree.**  `luqum.parser.parse(s)` is `parseCall` from the state of the
module-level lexer, `luqum.thread.parse(s)` is `parseCall` from the state of the calling thread's
clone (`parser.lexer.clone()`, a shallow copy that even inherits the module lexer's tracker). -/
theorem entry_points_agree (stModule stThread : LexerState) (s : Str) :
    (parseCall stModule s).1 = (parseCall stThread s).1 := by
  rw [parseCall_eq_parse, parseCall_eq_parse]

/-! ### non-vacuity -/

/-- a stale lexer state, as left by an earlier call: pending head `"  "`, `last_elt` pointing to a
token of an older call, `pos` in the middle of the old input -/
def staleState : LexerState :=
  { data := "(a b".toList, pos := 1,
    tracker := some { head := some "  ".toList, last := some .stale } }

/-- on `"a b"` the stateful lexer started from the stale state gives the tokens of `lex` -/
example : (lexFrom staleState "a b".toList).1 = lex "a b".toList := by decide +kernel

example : (lexFrom staleState "a b".toList).1 =
    ([{ kind := .term, text := ['a'], pos := 0, head := [], tail := [' '] },
      { kind := .term, text := ['b'], pos := 2, head := [], tail := [] }], none) := by decide +kernel

/-- the state it leaves behind: `pos` one past the end, a tracker whose `last_elt` is the `b` token -/
example : (lexFrom staleState "a b".toList).2 =
    { data := "a b".toList, pos := 4, tracker := some { head := none, last := some .current } } := by
  decide +kernel

/-- an illegal character leaves `pos` mid-input and a tracker with a pending head behind -/
example : lexFrom {} " \\".toList =
    (([], some { pos := 1, rest := ['\\'] }),
     { data := " \\".toList, pos := 1, tracker := some { head := some [' '], last := none } }) := by
  decide +kernel

/-- the stored tracker IS read when a lexeme does not start at offset 0, and a stale one does
damage.  Resuming the loop WITHOUT `input()` at offset 1 of `"(a b"`: `a` receives the left-over
head ... -/
example : (lexLoopS 10 staleState []).1 =
    ([{ kind := .term, text := ['a'], pos := 1, head := [' ', ' '], tail := [' '] },
      { kind := .term, text := ['b'], pos := 3, head := [], tail := [] }], none) := by decide +kernel

example : (lexLoopS 10 staleState []).1 ≠ lexLoop 10 1 ['('] "a b".toList [] none := by
  decide +kernel

def tokA : Tok := { kind := .term, text := ['a'], pos := 0 }

/-- ... a separator met with a stale `last_elt` is lost for the current token list (`lexLoop`
attaches it to `a`) ... -/
example : (lexLoopS 10 { data := "a b".toList, pos := 1, tracker := some { last := some .stale } } [tokA]).1 =
    ([tokA, { kind := .term, text := ['b'], pos := 2 }], none) := by decide +kernel

example : lexLoop 10 1 ['a'] " b".toList [tokA] none =
    ([{ tokA with tail := [' '] }, { kind := .term, text := ['b'], pos := 2 }], none) := by
  decide +kernel

/-- ... and a missing attribute is an `AttributeError` -/
example : (lexLoopS 10 { data := "a b".toList, pos := 1, tracker := none } [tokA]).1 =
    ([tokA], some { pos := 1, rest := " b".toList }) := by decide +kernel

/-- parsing from the stale state, and a history containing failing calls -/
example : (parseCall staleState "a b".toList).1 = parse "a b".toList := by rfl

example : ((parseSeq staleState [" \\".toList, "(a".toList, "a b".toList]).1.map Except.isOk) =
    [false, false, true] := by decide +kernel


/-- totality for the stateful entry points: a call on a lexer in any state returns a tree or raises
`ParseSyntaxError` / `IllegalCharacterError` -/
theorem parseCall_total (st : LexerState) (s : Str) :
    (∃ t, (parseCall st s).1 = .ok t) ∨
    (∃ e, (parseCall st s).1 = .error e ∧ (∀ m, e ≠ .internal m) ∧
      (e.render.1 = "ParseSyntaxError" ∨ e.render.1 = "IllegalCharacterError")) := by
  rw [parseCall_eq_parse]
  exact parse_total s

end Luqum.Props.C04
