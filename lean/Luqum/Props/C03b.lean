/-
  C03b — layout independence: two queries whose token sequences have the same kinds and texts (they
  differ only in the whitespace between tokens) give equal trees, or the same syntax error; and the
  yield of a tree: the token sequence of a query is determined by its parse tree.
  Property theorems only; the lemmas are in Luqum/Lemmas/Lockstep.lean and Luqum/Lemmas/Yield.lean.
-/
import Luqum.Model.ParserInst
import Luqum.Lemmas.Lockstep
import Luqum.Lemmas.Yield
import Luqum.Props.C01
import Luqum.Props.C09

namespace Luqum.Props.C03b
open Luqum

/- `tokKey t = (t.kind, t.text)` (defined in Luqum.Lemmas.Lockstep): what the grammar sees of a
token: its kind and its text, not the separators around it nor its position -/
export Luqum (tokKey)

example (t : Tok) : tokKey t = (t.kind, t.text) := rfl

/-- `e` is a `ParseSyntaxError` (not an `IllegalCharacterError`) -/
abbrev isSyntaxError (e : ParseErr) : Prop := e.isSyntax = true

/-- same kind of syntax error with the same text: `syntaxAt text _` / `syntaxEnd` /
`badNumber text _`; the positions may differ -/
abbrev sameSyntaxError (e₁ e₂ : ParseErr) : Prop := ErrSim e₁ e₂

example (t : Str) (p p' : Nat) : sameSyntaxError (.syntaxAt t p) (.syntaxAt t p') := rfl
example (t : Str) (p p' : Int) : sameSyntaxError (.badNumber t p) (.badNumber t p') := rfl
example : sameSyntaxError .syntaxEnd .syntaxEnd := trivial
example (t t' : Str) (p : Nat) (h : sameSyntaxError (.syntaxAt t p) (.syntaxAt t' p)) : t = t' := h
example (t : Str) (p : Nat) : ¬ sameSyntaxError (.syntaxAt t p) .syntaxEnd := fun h => h

/-- both halves at once: the outcome of the second parse simulates the outcome of the first -/
private theorem parse_sim (s₁ s₂ : Str)
    (hk : (lex s₁).1.map tokKey = (lex s₂).1.map tokKey) (h₂ : (lex s₂).2 = none) :
    match parse s₁ with
    | .ok t₁ => ∃ t₂, parse s₂ = .ok t₂ ∧ t₁.eqv t₂ = true
    | .error e₁ => isSyntaxError e₁ → ∃ e₂, parse s₂ = .error e₂ ∧ sameSyntaxError e₁ e₂ := by
  have hlen : (lex s₁).1.length = (lex s₂).1.length := by
    simpa using congrArg List.length hk
  have hsim := runLoop_sim tables (parseFuel (lex s₁).1.length) { states := [0], vals := [] }
    { states := [0], vals := [] } (lex s₁).1 (lex s₂).1 (lex s₁).2 ⟨rfl, .nil⟩ hk
  unfold parse parseWith
  simp only
  rw [← hlen, h₂]
  generalize runLoop tables (parseFuel (lex s₁).1.length) { states := [0], vals := [] } (lex s₁).1
    (lex s₁).2 = r₁ at hsim
  generalize runLoop tables (parseFuel (lex s₁).1.length) { states := [0], vals := [] } (lex s₂).1
    none = r₂ at hsim
  cases r₁ with
  | ok v =>
    obtain ⟨v', rfl, hv⟩ := hsim
    cases hv with
    | item t t' h => exact ⟨t', rfl, (C09.eqv_iff_content t t').2 h⟩
    | tok k a a' _ => intro hsyn; cases hsyn
  | error e =>
    intro hsyn
    obtain ⟨e', rfl, he⟩ := hsim hsyn
    exact ⟨e', rfl, he⟩

/-- **C03 (layout independence)**: if two strings have token sequences with the same kinds and
texts, and the second has no illegal character either, then when the first parses so does the
second, into an equal tree -/
theorem layout_independent (s₁ s₂ : Str) (t₁ : Tree)
    (hk : (lex s₁).1.map tokKey = (lex s₂).1.map tokKey)
    (h₂ : (lex s₂).2 = none)
    (h₁ : parse s₁ = .ok t₁) :
    ∃ t₂, parse s₂ = .ok t₂ ∧ t₁.eqv t₂ = true := by
  have := parse_sim s₁ s₂ hk h₂
  rw [h₁] at this
  exact this

/-- **C03 (layout independence, error half)**: under the same hypotheses, when the first parse
fails with a syntax error so does the second, with the same kind of syntax error on the same text
(positions may differ) -/
theorem layout_independent_error (s₁ s₂ : Str) (e₁ : ParseErr)
    (hk : (lex s₁).1.map tokKey = (lex s₂).1.map tokKey)
    (h₂ : (lex s₂).2 = none)
    (hsyn : isSyntaxError e₁)
    (h₁ : parse s₁ = .error e₁) :
    ∃ e₂, parse s₂ = .error e₂ ∧ sameSyntaxError e₁ e₂ := by
  have := parse_sim s₁ s₂ hk h₂
  rw [h₁] at this
  exact this hsyn

/-- hence, for two strings without illegal character and with the same token keys, one parses iff
the other does -/
theorem layout_independent_iff (s₁ s₂ : Str)
    (hk : (lex s₁).1.map tokKey = (lex s₂).1.map tokKey)
    (h₁ : (lex s₁).2 = none) (h₂ : (lex s₂).2 = none) :
    (∃ t₁, parse s₁ = .ok t₁) ↔ (∃ t₂, parse s₂ = .ok t₂) := by
  constructor
  · rintro ⟨t₁, h⟩
    obtain ⟨t₂, h', _⟩ := layout_independent s₁ s₂ t₁ hk h₂ h
    exact ⟨t₂, h'⟩
  · rintro ⟨t₂, h⟩
    obtain ⟨t₁, h', _⟩ := layout_independent s₂ s₁ t₂ hk.symm h₁ h
    exact ⟨t₁, h'⟩

/-! ### the yield of a tree -/

/- `yield t` (defined in Luqum.Lemmas.Yield): the tokens (kind, text) a tree is written with, numerals
in their source spelling; `yieldNorm t`: the same with every `~` / `^` token carrying the canonical
numeric value of the degree / force instead of a spelling -/
export Luqum (yield yieldNorm)

/-- **the token sequence is determined by the tree**: if `parse s` succeeds with the tree `t`, the
tokens of `s` (kinds and texts) are exactly the yield of `t` (no hypothesis about blanks before a
`:`: the finding KF1 loses text, not tokens) -/
theorem parse_yield (s : Str) (t : Tree) (h : parse s = .ok t) : (lex s).1.map tokKey = yield t :=
  Luqum.parse_yield s t h

/-- equal trees (`Item.__eq__`) have the same yield up to the spelling of numerals -/
theorem yield_eqv (a b : Tree) (h : a.eqv b = true) : yieldNorm a = yieldNorm b :=
  Luqum.yieldNorm_eqv a b h

/-- forgetting the numerals, `yieldNorm` is `yield` -/
theorem yieldNorm_kinds (t : Tree) :
    (yieldNorm t).map (fun x => (x.1, x.2.1)) = (yield t).map eraseNum :=
  Luqum.yieldNorm_erase t

/-- with layout independence: **parse trees with the same yield are equal** (the yield is a
complete invariant of the parse tree up to `==`) -/
theorem same_yield_equal_trees (s₁ s₂ : Str) (t₁ t₂ : Tree)
    (h₁ : parse s₁ = .ok t₁) (h₂ : parse s₂ = .ok t₂) (h : yield t₁ = yield t₂) :
    t₁.eqv t₂ = true := by
  have hk := Luqum.parse_yield_inj s₁ s₂ t₁ t₂ h₁ h₂ h
  obtain ⟨t₂', h₂', he⟩ := layout_independent s₁ s₂ t₁ hk (C01.parse_ok_no_lexErr s₂ t₂ h₂) h₁
  rw [h₂] at h₂'
  cases h₂'
  exact he

/-! ### witnesses -/

/-- both strings parse, into trees that are equal but print differently -/
def equalButNotSame (s₁ s₂ : Str) : Bool :=
  match parse s₁, parse s₂ with
  | .ok t₁, .ok t₂ => t₁.eqv t₂ && t₁.full .raw != t₂.full .raw
  | _, _ => false

/-- non-vacuity: two spellings of a query with AND, OR, a group, a field, a range, a boost, a
proximity and a prohibit, that differ in the blanks only: same token keys, both parse, the trees
are equal — but they are not the same tree (they print differently) -/
example :
    let s₁ := "a  AND (f:[1 TO  5}^2.50   OR \"x y\"~3 ) -z ".toList
    let s₂ := "  a AND ( f:[1 TO 5 }^2.50 OR \"x y\"~3)-z".toList
    (lex s₁).1.map tokKey = (lex s₂).1.map tokKey ∧ (lex s₂).2 = none ∧
      equalButNotSame s₁ s₂ = true :=
  ⟨by decide +kernel, by decide +kernel, by decide +kernel⟩

/-- the error half is not vacuous: the three kinds of syntax error, each with two layouts -/
example : parse "a AND".toList = .error .syntaxEnd ∧ parse " a   AND  ".toList = .error .syntaxEnd :=
  ⟨by rfl, by rfl⟩
example : parse "a AND OR b".toList = .error (.syntaxAt "OR".toList 6) ∧
    parse "a AND    OR b".toList = .error (.syntaxAt "OR".toList 9) := ⟨by rfl, by rfl⟩
example : parse "a~1.2.3 b".toList = .error (.badNumber "1.2.3".toList 1) ∧
    parse " a ~1.2.3   b".toList = .error (.badNumber "1.2.3".toList 3) := ⟨by rfl, by rfl⟩

/-- the hypothesis on the second string is needed: the tokens lexed before an illegal character can
be those of a valid query -/
example :
    (lex "a".toList).1.map tokKey = (lex "a \"".toList).1.map tokKey ∧
    parse "a".toList = .ok (.term .word ['a'] { pos := some 0, size := some 1 }) ∧
    parse "a \"".toList = .error (.illegalChar 2 ['"']) := ⟨by rfl, by rfl, by rfl⟩

/-- the yield of a parse tree, on an input with blanks everywhere (also before `:`, KF1) -/
example :
    (match parse " f :[1 TO  5}^2.50 -z  TO ".toList with
     | .ok t => some (yield t)
     | .error _ => none) =
    some [(.term, ['f']), (.column, [':']), (.lbracket, ['[']), (.term, ['1']), (.to, "TO".toList),
      (.term, ['5']), (.rbracket, ['}']), (.boost, "^2.50".toList), (.minus, ['-']), (.term, ['z']),
      (.to, "TO".toList)] := by decide +kernel

/-- `yield` sees the spelling of numerals (and whether a degree is implicit), `yieldNorm` does not -/
example :
    (match parse "a~ b^2".toList, parse "a~0.50 b^2.0".toList with
     | .ok t, .ok u => t.eqv u && decide (yieldNorm t = yieldNorm u) && decide (yield t ≠ yield u)
     | _, _ => false) = true := by decide +kernel

end Luqum.Props.C03b
