/-
  C01 (numerals) — a number written after `~` or `^` may be re-spelled as a numerically equal
  plain decimal literal (`2.0 → 2`, `.5 → 0.5`, `007 → 7`), never in a spelling that the parser
  itself reads differently.

  For every literal `raw` over `[0-9.]` that `decimal.Decimal` accepts (`Dec.ofLiteral raw = some d`)
  the printed spelling is `p := d.normalize.render` (`format(Decimal(raw).normalize(), 'f')`):
    1. `render_plain`        `p` matches `[0-9]+(\.[0-9]+)?`   (+ `render_tidy`: no superfluous zeros)
    2. `render_same_value`   `p` denotes the same number as `raw`, up to known finding KF2
                             (more than `decPrec` = 28 significant digits are rounded);
                             `same_value_iff` says that this hypothesis is exactly what is needed;
                             `canon_sound` says that "same canonical form" (`Dec.numEq`, the model of
                             Python's `==`) is "same number" and not just a definition
    3. `render_fixed_point`  the parser reads `p` as the same number node again (no hypothesis);
                             `normalize_idem`
    4. `proximity_respelling` the integer after a phrase `~`
    5. KF2 negative witness, non-vacuity examples (kernel-checked by `decide`)
  Property theorems only; the lemmas are in Luqum/Lemmas (NumDigits, NumCanon, NumRender: core Lean
  only; NumRat: the ℚ reading, imports single Mathlib modules and is used only by the two `_rat`
  theorems at the end of section 2).
-/
import Luqum.Lemmas.NumRender
import Luqum.Lemmas.NumRat

namespace Luqum.Props.C01Num
open Luqum

/-! ### definitions used in the statements -/

/-- `[0-9]+(\.[0-9]+)?`: non-empty digits, optionally a dot followed by non-empty digits
(`isDigitC c` is `'0' ≤ c && c ≤ '9'`) -/
def isPlainDecimal (s : Str) : Bool :=
  let ip := s.takeWhile isDigitC
  match s.dropWhile isDigitC with
  | [] => !ip.isEmpty
  | c :: fp => c == '.' && !ip.isEmpty && !fp.isEmpty && fp.all isDigitC

/-- no superfluous zeros: the integer part is `0` or does not start with `0`, and what follows it
(the dot and the decimals, if any) does not end in `0` -/
def isTidy (s : Str) : Bool :=
  let ip := s.takeWhile isDigitC
  (ip == ['0'] || ip.head? != some '0') && (s.dropWhile isDigitC).getLast? != some '0'

/-- hypothesis of known finding KF2: the coefficient has at most `decPrec` = 28 digits -/
def ShortNumeral (d : Dec) : Prop := (natDigits d.coeff).length ≤ decPrec

/-- the weaker hypothesis that is exactly what is needed: the *significand* (the coefficient without
its trailing zeros) has at most 28 digits (`1000…0` with 40 zeros is fine) -/
def ShortSignificand (d : Dec) : Prop := (natDigits d.canon.coeff).length ≤ decPrec

theorem ShortNumeral.significand {d : Dec} (h : ShortNumeral d) : ShortSignificand d := by
  unfold ShortSignificand
  apply (natDigits_length_le_iff (by decide)).mpr
  exact Nat.lt_of_le_of_lt (Dec.canon_coeff_le d) ((natDigits_length_le_iff (by decide)).mp h)

/-! ### the two shapes are plain -/

private theorem isDigitC_dot : isDigitC '.' = false := by decide

private theorem plain_of_digits (s : Str) (hne : s ≠ []) (h : ∀ c ∈ s, isDigitC c = true) :
    isPlainDecimal s = true := by
  have h1 : s.takeWhile isDigitC = s := by
    have := List.takeWhile_append_of_pos (p := isDigitC) (l₁ := s) (l₂ := []) h
    simpa using this
  have h2 : s.dropWhile isDigitC = [] := by
    have := List.dropWhile_append_of_pos (p := isDigitC) (l₁ := s) (l₂ := []) h
    simpa using this
  simp [isPlainDecimal, h1, h2, hne]

private theorem takeWhile_dotted (ip fp : Str) (hip : ∀ c ∈ ip, isDigitC c = true) :
    (ip ++ '.' :: fp).takeWhile isDigitC = ip := by
  rw [List.takeWhile_append_of_pos hip, List.takeWhile_cons_of_neg (by simp [isDigitC_dot])]
  simp

private theorem dropWhile_dotted (ip fp : Str) (hip : ∀ c ∈ ip, isDigitC c = true) :
    (ip ++ '.' :: fp).dropWhile isDigitC = '.' :: fp := by
  rw [List.dropWhile_append_of_pos hip, List.dropWhile_cons_of_neg (by simp [isDigitC_dot])]

private theorem plain_of_dotted (ip fp : Str) (hip : ∀ c ∈ ip, isDigitC c = true)
    (hfp : ∀ c ∈ fp, isDigitC c = true) (h1 : ip ≠ []) (h2 : fp ≠ []) :
    isPlainDecimal (ip ++ '.' :: fp) = true := by
  simp only [isPlainDecimal, takeWhile_dotted ip fp hip, dropWhile_dotted ip fp hip]
  simp [h1, h2]
  exact hfp

/-- the meaning of `isPlainDecimal` spelled out -/
theorem isPlainDecimal_iff (s : Str) : isPlainDecimal s = true ↔
    (s ≠ [] ∧ ∀ c ∈ s, isDigitC c = true) ∨
    ∃ ip fp : Str, s = ip ++ '.' :: fp ∧ ip ≠ [] ∧ fp ≠ [] ∧
      (∀ c ∈ ip, isDigitC c = true) ∧ (∀ c ∈ fp, isDigitC c = true) := by
  constructor
  · intro h
    have hsplit := List.takeWhile_append_dropWhile (p := isDigitC) (l := s)
    have htk : ∀ c ∈ s.takeWhile isDigitC, isDigitC c = true :=
      fun c hc => List.all_eq_true.mp List.all_takeWhile c hc
    unfold isPlainDecimal at h
    simp only at h
    split at h
    · rename_i hd
      left
      rw [hd, List.append_nil] at hsplit
      rw [hsplit] at h htk
      exact ⟨by simpa using h, htk⟩
    · rename_i c fp hd
      right
      simp only [Bool.and_eq_true, beq_iff_eq, Bool.not_eq_true', List.isEmpty_eq_false_iff,
        List.all_eq_true] at h
      obtain ⟨⟨⟨hc, h1⟩, h2⟩, h3⟩ := h
      subst hc
      exact ⟨_, fp, by rw [← hd, hsplit], h1, h2, htk, h3⟩
  · rintro (⟨hne, h⟩ | ⟨ip, fp, rfl, h1, h2, hip, hfp⟩)
    · exact plain_of_digits s hne h
    · exact plain_of_dotted ip fp hip hfp h1 h2

/-! ### 1. the printed numeral is a plain decimal literal -/

/-- `format(d, 'f')` of any unsigned finite Decimal is a plain decimal literal -/
theorem render_plain_of_unsigned (d : Dec) (hn : d.neg = false) :
    isPlainDecimal d.render = true := by
  by_cases he : 0 ≤ d.exp
  · rw [Dec.render_of_nonneg_exp hn he]
    split
    · decide
    · apply plain_of_digits
      · intro h; exact natDigits_ne_nil _ (List.append_eq_nil_iff.mp h).1
      · intro c hc
        simp only [List.mem_append, List.mem_replicate] at hc
        rcases hc with hc | ⟨_, rfl⟩
        · exact natDigits_digit _ c hc
        · exact isDigitC_zero
  · have he' : d.exp < 0 := by omega
    rw [Dec.render_of_neg_exp hn he']
    apply plain_of_dotted _ _ (Dec.intPart_digit d) (Dec.fracPart_digit d)
      (List.length_pos_iff.mp (Dec.intPart_length_pos d))
    apply List.length_pos_iff.mp
    rw [Dec.fracPart_length]; omega

/-- **C01 numerals, 1**: the spelling printed for an accepted literal matches `[0-9]+(\.[0-9]+)?`
(in particular: no sign, no exponent — what fix F1 is about) -/
theorem render_plain (raw : Str) (d : Dec) (h : Dec.ofLiteral raw = some d) :
    isPlainDecimal d.normalize.render = true :=
  render_plain_of_unsigned _ (by rw [Dec.normalize_neg]; exact ofLiteral_neg h)

/-- … and it has no superfluous zeros: no leading zero except a single `0` before the dot, no
trailing zero after the dot (`0.50 → 0.5`, `007 → 7`, `2.0 → 2`) -/
theorem render_tidy (raw : Str) (d : Dec) (h : Dec.ofLiteral raw = some d) :
    isTidy d.normalize.render = true := by
  have hn : d.normalize.neg = false := by rw [Dec.normalize_neg]; exact ofLiteral_neg h
  have hN := Dec.normalize_normal d
  generalize d.normalize = n at hn hN
  by_cases he : 0 ≤ n.exp
  · rw [Dec.render_of_nonneg_exp hn he]
    split
    · decide
    · rename_i h0
      have hdig : ∀ c ∈ natDigits n.coeff ++ List.replicate n.exp.toNat '0',
          isDigitC c = true := by
        intro c hc
        simp only [List.mem_append, List.mem_replicate] at hc
        rcases hc with hc | ⟨_, rfl⟩
        · exact natDigits_digit _ c hc
        · exact isDigitC_zero
      have h1 := List.takeWhile_append_of_pos (p := isDigitC) (l₂ := []) hdig
      have h2 := List.dropWhile_append_of_pos (p := isDigitC) (l₂ := []) hdig
      simp only [List.append_nil, List.takeWhile_nil, List.dropWhile_nil] at h1 h2
      unfold isTidy
      simp only [h1, h2]
      have hh := natDigits_head? n.coeff h0
      cases hd : natDigits n.coeff with
      | nil => exact absurd hd (natDigits_ne_nil _)
      | cons a as => rw [hd] at hh; simp at hh; simp [hh]
  · have he' : n.exp < 0 := by omega
    have hc : n.coeff % 10 ≠ 0 := by
      rcases hN with ⟨_, hz⟩ | ⟨hc, _⟩
      · omega
      · exact hc
    have h0 : n.coeff ≠ 0 := by intro h; rw [h] at hc; simp at hc
    have hfl := Dec.fracPart_length n
    have hfpne : n.fracPart ≠ [] := by apply List.length_pos_iff.mp; omega
    unfold isTidy
    simp only [Dec.render_of_neg_exp hn he', takeWhile_dotted _ _ (Dec.intPart_digit n),
      dropWhile_dotted _ _ (Dec.intPart_digit n)]
    have hl : ('.' :: n.fracPart).getLast? = n.fracPart.getLast? := by
      cases hf : n.fracPart with
      | nil => exact absurd hf hfpne
      | cons a as => simp [List.getLast?_cons_cons]
    rw [hl]
    have h2 := Dec.fracPart_getLast? he' hc
    rcases Dec.intPart_head? h0 with h3 | h3
    · simp [h3, h2]
    · simp [h3, h2]

/-! ### 2. the printed numeral denotes the same number -/

/-- **`numEq` is numeric equality, not just a definition**: two decimals have the same canonical
form (`Dec.numEq`, the model of Python's `==`) iff `±coeff·10^exp` agree — compared exactly as
integers after scaling both by `10^(-min exp)`; a zero has no sign and any exponent -/
theorem canon_sound (a b : Dec) :
    a.canon = b.canon ↔
      (if a.neg then -1 else 1) * ((a.coeff * 10 ^ (a.exp - min a.exp b.exp).toNat : Nat) : Int) =
      (if b.neg then -1 else 1) * ((b.coeff * 10 ^ (b.exp - min a.exp b.exp).toNat : Nat) : Int) :=
  Dec.canon_eq_iff a b

theorem numEq_iff_sameValue (a b : Dec) : a.numEq b = true ↔ a.SameValue b := Dec.numEq_iff a b

/-- **C01 numerals, 2** (up to KF2): for a literal of at most 28 significant digits the printed
spelling is again an accepted literal and denotes the same number as the source spelling -/
theorem render_same_value (raw : Str) (d : Dec) (h : Dec.ofLiteral raw = some d)
    (hs : ShortSignificand d) :
    ∃ d', Dec.ofLiteral d.normalize.render = some d' ∧ d'.numEq d = true ∧ d'.SameValue d := by
  have hn := ofLiteral_neg h
  have hn' : d.normalize.neg = false := by rw [Dec.normalize_neg]; exact hn
  obtain ⟨d', h1, h2⟩ := Dec.ofLiteral_render_sameValue hn'
  refine ⟨d', h1, ?_⟩
  have hc : d'.canon = d.canon := by
    rw [(Dec.canon_eq_iff _ _).mpr h2, Dec.normalize_eq_canon' hn hs, Dec.canon_canon]
  exact ⟨by simp [Dec.numEq, hc], (Dec.canon_eq_iff _ _).mp hc⟩

/-- the same under the hypothesis as stated in KF2 (at most 28 digits in the coefficient) -/
theorem render_same_value_short (raw : Str) (d : Dec) (h : Dec.ofLiteral raw = some d)
    (hs : ShortNumeral d) :
    ∃ d', Dec.ofLiteral d.normalize.render = some d' ∧ d'.numEq d = true ∧ d'.SameValue d :=
  render_same_value raw d h hs.significand

/-- the hypothesis is exactly what is needed: the printed spelling always parses, and it denotes the
same number as the source spelling iff the significand has at most 28 digits -/
theorem same_value_iff (raw : Str) (d : Dec) (h : Dec.ofLiteral raw = some d) :
    ∃ d', Dec.ofLiteral d.normalize.render = some d' ∧ (d'.SameValue d ↔ ShortSignificand d) := by
  have hn := ofLiteral_neg h
  have hn' : d.normalize.neg = false := by rw [Dec.normalize_neg]; exact hn
  obtain ⟨d', h1, h2⟩ := Dec.ofLiteral_render_sameValue hn'
  refine ⟨d', h1, ?_, ?_⟩
  · intro h3
    apply Dec.short_of_normalize_sameValue
    rw [← Dec.canon_eq_iff] at h2 h3 ⊢
    rw [← h2, h3]
  · intro hs
    obtain ⟨d'', h1', _, h3⟩ := render_same_value raw d h hs
    rw [h1] at h1'; cases h1'; exact h3

/-- the same in ℚ: `Dec.toRat d = ±coeff·10^exp`; equal canonical forms iff equal rationals -/
theorem canon_sound_rat (a b : Dec) : a.canon = b.canon ↔ a.toRat = b.toRat :=
  Dec.canon_eq_iff_toRat a b

/-- **C01 numerals, 2, in ℚ**: the printed spelling denotes the same rational number -/
theorem render_same_value_rat (raw : Str) (d : Dec) (h : Dec.ofLiteral raw = some d)
    (hs : ShortSignificand d) :
    ∃ d', Dec.ofLiteral d.normalize.render = some d' ∧ d'.toRat = d.toRat := by
  obtain ⟨d', h1, _, h3⟩ := render_same_value raw d h hs
  exact ⟨d', h1, (Dec.sameValue_iff_toRat _ _).mp h3⟩

/-! ### 3. the parser reads the printed numeral as the same number node -/

/-- `Decimal.normalize()` is idempotent -/
theorem normalize_idem (d : Dec) : d.normalize.normalize = d.normalize := Dec.normalize_idem d

/-- **C01 numerals, 3**: the printed spelling is an accepted literal and the parser builds the same
normalised number from it — for every accepted literal, however long (so re-parsing the printed
query gives the same `~`/`^` node, and printing is a fixed point after one round) -/
theorem render_fixed_point (raw : Str) (d : Dec) (h : Dec.ofLiteral raw = some d) :
    ∃ d', Dec.ofLiteral d.normalize.render = some d' ∧ d'.normalize = d.normalize :=
  Dec.normalize_ofLiteral_render (by rw [Dec.normalize_neg]; exact ofLiteral_neg h)
    (Dec.normalize_normal d)

/-- the same at the level of the parser's numeric conversion (`p_fuzzy` / `p_boosting`): converting
the printed number again gives a number with the same value and the same printed form -/
theorem decNum_fixed_point (raw : Str) (l : Lay) (dflt : Dec) (n : Num)
    (h : decNum { value := some raw, lay := l } dflt = .ok n) :
    n.raw = raw ∧ isPlainDecimal n.shown = true ∧
      ∃ n', decNum { value := some n.shown, lay := l } dflt = .ok n' ∧
        n'.val = n.val ∧ n'.shown = n.shown := by
  unfold decNum at h
  simp only at h
  split at h
  · rename_i d hd
    cases h
    obtain ⟨d', h1, h2⟩ := render_fixed_point raw d hd
    have hs : Num.shown { val := d.normalize, implicit := false, raw := raw } =
        d.normalize.render := by simp [Num.shown]
    simp only [hs]
    refine ⟨trivial, render_plain raw d hd, ?_⟩
    unfold decNum
    simp only [h1]
    exact ⟨_, rfl, h2, by simp [Num.shown, h2]⟩
  · cases h

/-! ### 4. the integer after a phrase (`"a b"~3`) -/

/-- **C01 numerals, 4**: the degree of a proximity is printed as a digit string that is not longer
than the source spelling and that the parser reads as the same integer -/
theorem proximity_respelling (raw : Str) (n : Nat) (h : intOfLiteral raw = some n) :
    (natDigits n ≠ [] ∧ ∀ c ∈ natDigits n, isDigitC c = true) ∧
    (natDigits n).length ≤ raw.length ∧
    intOfLiteral (natDigits n) = some n ∧
    (n ≠ 0 → (natDigits n).head? ≠ some '0') := by
  unfold intOfLiteral at h
  split at h
  · rename_i hc
    cases h
    simp only [Bool.and_eq_true, List.all_eq_true, Bool.not_eq_true', List.isEmpty_eq_false_iff,
      decide_eq_true_eq] at hc
    obtain ⟨⟨hdig, hne⟩, hlen⟩ := hc
    have hdig : ∀ c ∈ raw, isDigitC c = true := fun c hc => by
      simpa [isDigitC] using hdig c hc
    have hlt : digitsToNat raw < 10 ^ raw.length := digitsToNat_lt raw hdig
    have hle : (natDigits (digitsToNat raw)).length ≤ raw.length :=
      (natDigits_length_le_iff (List.length_pos_iff.mpr hne)).mpr hlt
    refine ⟨⟨natDigits_ne_nil _, natDigits_digit _⟩, hle, ?_, natDigits_head? _⟩
    unfold intOfLiteral
    have hd := natDigits_digit (digitsToNat raw)
    have hn := natDigits_ne_nil (digitsToNat raw)
    rw [if_pos]
    · rw [digitsToNat_natDigits]
    · simp only [Bool.and_eq_true, List.all_eq_true, Bool.not_eq_true',
        List.isEmpty_eq_false_iff, decide_eq_true_eq]
      exact ⟨⟨fun c hc => by simpa [isDigitC] using hd c hc, hn⟩, by omega⟩
  · cases h

/-- what is printed for the proximity degree is `natDigits n` -/
theorem proximity_shown (n : Nat) : Dec.render { coeff := n } = natDigits n := by
  rw [Dec.render_of_nonneg_exp rfl (Int.le_refl 0)]
  split
  · rename_i h; simp only at h; rw [h, natDigits_zero]
  · simp

/-! ### 5. KF2 witness and non-vacuity (kernel-checked) -/

/-- **KF2 (negative witness)**: a 31-digit literal is printed as a *different* number (rounded
half-even to 28 significant digits: `…678901 ↦ …679000`); the hypothesis of `render_same_value`
fails for it, and the parsed values differ -/
theorem kf2_witness :
    let raw := "1234567890123456789012345678901".toList
    let p := "1234567890123456789012345679000".toList
    ∃ d d', Dec.ofLiteral raw = some d ∧ d.normalize.render = p ∧ Dec.ofLiteral p = some d' ∧
      d'.numEq d = false ∧ ¬ d'.SameValue d ∧ ¬ ShortSignificand d ∧ d'.normalize = d.normalize :=
  ⟨{ coeff := 1234567890123456789012345678901 }, { coeff := 1234567890123456789012345679000 },
    by decide, by decide, by decide, by decide,
    by rw [← numEq_iff_sameValue]; decide, by unfold ShortSignificand; decide, by decide⟩

/-- a tie is rounded to even: `…78|50 ↦ …78|00` -/
example : (Dec.ofLiteral "123456789012345678901234567850".toList).map (·.normalize.render) =
    some "123456789012345678901234567800".toList := by decide

/-- rounding may carry into a new digit -/
example : (Dec.ofLiteral "99999999999999999999999999995".toList).map (·.normalize.render) =
    some "100000000000000000000000000000".toList := by decide

/-- a long literal with a short significand is exact (covered by `ShortSignificand`, not by
`ShortNumeral`) -/
example : (Dec.ofLiteral "1000000000000000000000000000000000".toList).map (·.normalize.render) =
    some "1000000000000000000000000000000000".toList := by decide
example : (Dec.ofLiteral "0.00000000000000000000000000000000001".toList).map
    (·.normalize.render) = some "0.00000000000000000000000000000000001".toList := by decide

/-- non-vacuity: the re-spellings named in the property -/
example : (Dec.ofLiteral "2.0".toList).map (·.normalize.render) = some "2".toList := by decide
example : (Dec.ofLiteral ".5".toList).map (·.normalize.render) = some "0.5".toList := by decide
example : (Dec.ofLiteral "007".toList).map (·.normalize.render) = some "7".toList := by decide
example : (Dec.ofLiteral "1.".toList).map (·.normalize.render) = some "1".toList := by decide
example : (Dec.ofLiteral "10".toList).map (·.normalize.render) = some "10".toList := by decide
example : (Dec.ofLiteral "100".toList).map (·.normalize.render) = some "100".toList := by decide
example : (Dec.ofLiteral "0.50".toList).map (·.normalize.render) = some "0.5".toList := by decide
example : (Dec.ofLiteral "0".toList).map (·.normalize.render) = some "0".toList := by decide
example : (Dec.ofLiteral "0.0".toList).map (·.normalize.render) = some "0".toList := by decide
example : (Dec.ofLiteral "00".toList).map (·.normalize.render) = some "0".toList := by decide
example : (Dec.ofLiteral "12.340".toList).map (·.normalize.render) = some "12.34".toList := by
  decide
example : (Dec.ofLiteral "0.001".toList).map (·.normalize.render) = some "0.001".toList := by
  decide

/-- rejected literals -/
example : Dec.ofLiteral ".".toList = none := by decide
example : Dec.ofLiteral "1.2.3".toList = none := by decide

/-- the hypotheses hold for the examples -/
example : ShortNumeral { coeff := 20, exp := -1 } := by unfold ShortNumeral; decide

/-- the recognisers accept and reject what they should -/
example : ["2", "0.5", "10", "0", "12.34"].map (fun s => isPlainDecimal s.toList) =
    [true, true, true, true, true] := by decide
example : ["", ".5", "1.", "1E+1", "-1", "1.2.3", "1 "].map (fun s => isPlainDecimal s.toList) =
    [false, false, false, false, false, false, false] := by decide
example : ["2", "0.5", "10", "0", "12.34"].map (fun s => isTidy s.toList) =
    [true, true, true, true, true] := by decide
example : ["2.0", "00.5", "007", "0.50", "00"].map (fun s => isTidy s.toList) =
    [false, false, false, false, false] := by decide

/-- proximity: `007 ↦ 7`, `0 ↦ 0` -/
example : (intOfLiteral "007".toList).map natDigits = some "7".toList := by decide
example : (intOfLiteral "0".toList).map natDigits = some "0".toList := by decide
example : intOfLiteral "1.5".toList = none := by decide

end Luqum.Props.C01Num
