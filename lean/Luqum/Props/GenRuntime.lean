/-
  Translator obligations (G6 / G7): the constants of the python runtime and of the Elasticsearch classes that the
  hand-written model hard-codes are compared, by `decide`, with what `tools/translate.py` reads from the live
  objects of /repo's working tree on every run (Luqum/Generated/Runtime.lean).
-/
import Luqum.Model.Parser
import Luqum.Model.Es
import Luqum.Generated.Runtime

namespace Luqum.Props.GenRuntime
open Luqum

/-- the model rounds `Decimal.normalize()` to the precision of the running decimal context -/
theorem decimal_prec_ok : decPrec = Generated.decimalPrec := by decide
/-- … half-even, as `Dec.normalize` does -/
theorem decimal_rounding_ok : Generated.decimalRounding = "ROUND_HALF_EVEN" := by decide
/-- `int()` refuses literals longer than the interpreter's limit -/
theorem int_limit_ok : Luqum.intMaxStrDigits = Generated.intMaxStrDigits := by decide

/-- the three operation classes the builder instantiates: their JSON key is the model's `EOpK.key`, and the
`zero_terms_query` they stamp on their direct items is what `buildOp` stamps (`all` under must, `none` under
must_not, nothing under should) -/
theorem es_operations_ok :
    Generated.esOperations =
      [("E_MUST", "EMust", some (String.ofList (EOpK.key .must)), some "all"),
       ("E_MUST_NOT", "EMustNot", some (String.ofList (EOpK.key .mustNot)), some "none"),
       ("E_SHOULD", "EShould", some (String.ofList (EOpK.key .should)), none)] := by decide

theorem es_buildOp_zero_terms (items : List ETree) :
    buildOp .must items = .op .must (setZeroTerms "all".toList items) ∧
    buildOp .mustNot items = .op .mustNot (setZeroTerms "none".toList items) ∧
    buildOp .should items = .op .should items := ⟨rfl, rfl, rfl⟩

/-- `default_operator` is compared with `MUST`; both spellings are the JSON keys -/
theorem es_operator_names_ok :
    Generated.esMust = String.ofList (EOpK.key .must) ∧ Generated.esShould = String.ofList (EOpK.key .should) := by
  decide

/-- the defaults of `ElasticsearchQueryBuilder.__init__` are the defaults of the model's configuration -/
theorem es_builder_defaults_ok :
    Generated.esBuilderDefaults =
      [("default_operator", "'" ++ Generated.esShould ++ "'"),
       ("default_field", "'" ++ String.ofList ({} : EsCfg).defaultField ++ "'"),
       ("not_analyzed_fields", "None"), ("nested_fields", "None"), ("object_fields", "None"),
       ("sub_fields", "None"), ("field_options", "None"), ("match_word_as_phrase", "False")] ∧
    ({} : EsCfg).defaultMust = false ∧ ({} : EsCfg).matchWordAsPhrase = false ∧
    ({} : EsCfg).notAnalyzed = [] ∧ ({} : EsCfg).fieldOptions = [] := by
  refine ⟨by decide, rfl, rfl, rfl, rfl⟩

/-- the optional keys a leaf clause may carry, in the order the model adds them (`boost`, `fuzziness`, `_name`) -/
theorem es_keys_to_add_ok :
    Generated.esKeysToAdd =
      [("AbstractEItem", ["boost", "fuzziness", "_name"], []), ("EWord", ["boost", "fuzziness", "_name"], ["q"]),
       ("EPhrase", ["boost", "fuzziness", "_name"], ["q"]), ("ERange", ["boost", "fuzziness", "_name"], [])] := by
  decide

end Luqum.Props.GenRuntime
