/-
  C09 — Tree equality means same meaning-bearing content; clone_item preserves it.
  Property theorems only (helper lemmas are local and private to the statements' proofs).
-/
import Luqum.Model.Basic
import Luqum.Generated.Classes

namespace Luqum.Props.C09
open Luqum

/-- Erasure of everything equality must ignore: layout, positions, names, the implicit flag and the
spelling of numbers. What is left is exactly: node type, term value, field name, inclusiveness flags,
numeric value of degree / force, and the children in order. -/
def Num.content (n : Num) : Num := { val := n.val.canon, implicit := false, raw := [] }

mutual
def content : Tree → Tree
  | .term k v _ => .term k v {}
  | .field n e _ => .field n (content e) {}
  | .group k e _ => .group k (content e) {}
  | .range a b il ih _ => .range (content a) (content b) il ih {}
  | .approx k t n _ => .approx k (content t) (Num.content n) {}
  | .boost e n _ => .boost (content e) (Num.content n) {}
  | .op k xs _ => .op k (contents xs) {}
  | .unary k a _ => .unary k (content a) {}
  | .orange k a i _ => .orange k (content a) i {}
  | .none _ => .none {}
def contents : List Tree → List Tree
  | [] => []
  | x :: r => content x :: contents r
end

private theorem numEq_iff (a b : Num) : a.val.numEq b.val = true ↔ Num.content a = Num.content b := by
  simp [Dec.numEq, Num.content]

mutual
/-- **Equality is sameness of meaning-bearing content** (for every pair of trees). -/
theorem eqv_iff_content : ∀ a b : Tree, a.eqv b = true ↔ content a = content b
  | .term k v _, b => by cases b <;> simp [Tree.eqv, content]
  | .field n e _, b => by
      cases b <;> simp [Tree.eqv, content]
      rename_i n' e' _; simp [eqv_iff_content e e']
  | .group k e _, b => by
      cases b <;> simp [Tree.eqv, content]
      rename_i k' e' _; simp [eqv_iff_content e e']
  | .range x y il ih _, b => by
      cases b <;> simp [Tree.eqv, content]
      rename_i x' y' il' ih' _
      simp [eqv_iff_content x x', eqv_iff_content y y']
      constructor
      · rintro ⟨⟨⟨h1, h2⟩, h3⟩, h4⟩; exact ⟨h3, h4, h2, h1⟩
      · rintro ⟨h3, h4, h2, h1⟩; exact ⟨⟨⟨h1, h2⟩, h3⟩, h4⟩
  | .approx k t n _, b => by
      cases b <;> simp [Tree.eqv, content]
      rename_i k' t' n' _
      simp [eqv_iff_content t t', numEq_iff n n']
      constructor
      · rintro ⟨⟨h1, h2⟩, h3⟩; exact ⟨h1, h3, h2⟩
      · rintro ⟨h1, h3, h2⟩; exact ⟨⟨h1, h2⟩, h3⟩
  | .boost e n _, b => by
      cases b <;> simp [Tree.eqv, content]
      rename_i e' n' _
      simp [eqv_iff_content e e', numEq_iff n n']
      constructor
      · rintro ⟨h1, h2⟩; exact ⟨h2, h1⟩
      · rintro ⟨h1, h2⟩; exact ⟨h2, h1⟩
  | .op k xs _, b => by
      cases b <;> simp [Tree.eqv, content]
      rename_i k' xs' _; simp [eqvs_iff_contents xs xs']
  | .unary k x _, b => by
      cases b <;> simp [Tree.eqv, content]
      rename_i k' x' _; simp [eqv_iff_content x x']
  | .orange k x i _, b => by
      cases b <;> simp [Tree.eqv, content]
      rename_i k' x' i' _; simp [eqv_iff_content x x']
      constructor
      · rintro ⟨⟨h1, h2⟩, h3⟩; exact ⟨h1, h3, h2⟩
      · rintro ⟨h1, h3, h2⟩; exact ⟨⟨h1, h2⟩, h3⟩
  | .none _, b => by cases b <;> simp [Tree.eqv, content]
theorem eqvs_iff_contents : ∀ xs ys : List Tree, Tree.eqvs xs ys = true ↔ contents xs = contents ys
  | [], ys => by cases ys <;> simp [Tree.eqvs, contents]
  | x :: r, ys => by
      cases ys <;> simp [Tree.eqvs, contents]
      rename_i y s; simp [eqv_iff_content x y, eqvs_iff_contents r s]
end

/-- equality is reflexive -/
theorem eqv_refl (a : Tree) : a.eqv a = true := (eqv_iff_content a a).2 rfl
/-- equality is symmetric -/
theorem eqv_symm (a b : Tree) : a.eqv b = b.eqv a := by
  cases h : b.eqv a
  · cases h' : a.eqv b
    · rfl
    · rw [eqv_iff_content] at h'; rw [← Bool.not_eq_true, eqv_iff_content] at h; exact absurd h'.symm h
  · rw [eqv_iff_content] at h ⊢; exact h.symm
/-- equality is transitive -/
theorem eqv_trans (a b c : Tree) (h1 : a.eqv b = true) (h2 : b.eqv c = true) : a.eqv c = true := by
  rw [eqv_iff_content] at *; exact h1.trans h2

/-- layout, positions and names never affect equality -/
theorem eqv_setLay (a : Tree) (l : Lay) : (a.setLay l).eqv a = true := by
  rw [eqv_iff_content]; cases a <;> simp [Tree.setLay, content]

/-! ### clone_item -/

/-- the clone has the same class -/
theorem cloneItem_class : ∀ t : Tree, t.cloneItem.className = t.className
  | .term k _ _ => by cases k <;> rfl
  | .group k _ _ => by cases k <;> rfl
  | .approx k _ _ _ => by cases k <;> rfl
  | .op k _ _ => by cases k <;> rfl
  | .unary k _ _ => by cases k <;> rfl
  | .orange k _ _ _ => by cases k <;> rfl
  | .field .. => rfl
  | .range .. => rfl
  | .boost .. => rfl
  | .none _ => rfl

/-- … the same layout and positions (the attached name is not copied) -/
theorem cloneItem_lay (t : Tree) : t.cloneItem.lay = { t.lay with name := none } := by
  cases t <;> rfl

/-- … and placeholders (`NONE_ITEM`) as children, as many as the class declares; operations get none -/
theorem cloneItem_children (t : Tree) :
    t.cloneItem.children = match t with
      | .op .. => []
      | t => t.children.map (fun _ => noneItem) := by
  cases t <;> rfl

/-- Once given (clones of) the children, the clone is the original up to the attached name:
it compares equal to it … -/
theorem clone_with_children (t : Tree) :
    t.cloneItem.setChildren t.children = some (t.setLay { t.lay with name := none }) := by
  cases t <;> simp [Tree.cloneItem, Tree.setChildren, Tree.children, Tree.setLay, Tree.lay]

theorem clone_with_children_eqv (t t' : Tree) (h : t.cloneItem.setChildren t.children = some t') :
    t'.eqv t = true := by
  rw [clone_with_children] at h; cases h; exact eqv_setLay t _

/-- … and prints like it, with or without head and tail, in both numeral styles. -/
theorem clone_with_children_prints (t t' : Tree) (s : NumStyle)
    (h : t.cloneItem.setChildren t.children = some t') :
    t'.full s = t.full s ∧ t'.body s = t.body s := by
  rw [clone_with_children] at h; cases h
  cases t <;> simp [Tree.setLay, Tree.full, Tree.body, Tree.lay]

/-- More generally: giving the clone children that are equal to / print like the original's children
gives a node equal to / printing like the original. -/
theorem clone_with_equal_children (t t' : Tree) (cs : List Tree)
    (h : t.cloneItem.setChildren cs = some t') (hc : Tree.eqvs cs t.children = true) :
    t'.eqv t = true := by
  cases t with
  | term k v l =>
    cases cs <;> simp [Tree.cloneItem, Tree.setChildren, Tree.children, Tree.eqvs] at h hc
    subst h; simp [Tree.eqv]
  | none l =>
    cases cs <;> simp [Tree.cloneItem, Tree.setChildren, Tree.children, Tree.eqvs] at h hc
    subst h; simp [Tree.eqv]
  | op k xs l =>
    simp [Tree.cloneItem, Tree.setChildren, Tree.children] at h hc
    subst h; simp [Tree.eqv, hc]
  | range a b il ih l =>
    match cs, h, hc with
    | [x, y], h, hc =>
      simp [Tree.cloneItem, Tree.setChildren, Tree.children, Tree.eqvs] at h hc
      subst h; simp [Tree.eqv, hc]
  | field n e l =>
    match cs, h, hc with
    | [x], h, hc =>
      simp [Tree.cloneItem, Tree.setChildren, Tree.children, Tree.eqvs] at h hc
      subst h; simp [Tree.eqv, hc]
  | group k e l =>
    match cs, h, hc with
    | [x], h, hc =>
      simp [Tree.cloneItem, Tree.setChildren, Tree.children, Tree.eqvs] at h hc
      subst h; simp [Tree.eqv, hc]
  | approx k e n l =>
    match cs, h, hc with
    | [x], h, hc =>
      simp [Tree.cloneItem, Tree.setChildren, Tree.children, Tree.eqvs] at h hc
      subst h; simp [Tree.eqv, hc, Dec.numEq]
  | boost e n l =>
    match cs, h, hc with
    | [x], h, hc =>
      simp [Tree.cloneItem, Tree.setChildren, Tree.children, Tree.eqvs] at h hc
      subst h; simp [Tree.eqv, hc, Dec.numEq]
  | unary k e l =>
    match cs, h, hc with
    | [x], h, hc =>
      simp [Tree.cloneItem, Tree.setChildren, Tree.children, Tree.eqvs] at h hc
      subst h; simp [Tree.eqv, hc]
  | orange k e i l =>
    match cs, h, hc with
    | [x], h, hc =>
      simp [Tree.cloneItem, Tree.setChildren, Tree.children, Tree.eqvs] at h hc
      subst h; simp [Tree.eqv, hc]

/-! ### tie to the source: the attribute lists the generic `__eq__` / `clone_item` iterate over -/

/-- what the model assumes about every concrete class: its `_equality_attrs` are exactly the
meaning-bearing attributes kept by `content`, its children attributes are in printing order -/
def expectedClassTable : List (String × List String × List String × List String × String) := [
  ("Word", ["Word", "Term", "Item"], ["value"], [], "<none>"),
  ("Phrase", ["Phrase", "Term", "Item"], ["value"], [], "<none>"),
  ("Regex", ["Regex", "Term", "Item"], ["value"], [], "<none>"),
  ("SearchField", ["SearchField", "Item"], ["name"], ["expr"], "<none>"),
  ("Group", ["Group", "BaseGroup", "Item"], [], ["expr"], "<none>"),
  ("FieldGroup", ["FieldGroup", "BaseGroup", "Item"], [], ["expr"], "<none>"),
  ("Range", ["Range", "Item"], ["include_high", "include_low"], ["low", "high"], "<none>"),
  ("Fuzzy", ["Fuzzy", "BaseApprox", "Item"], ["degree"], ["term"], "<none>"),
  ("Proximity", ["Proximity", "BaseApprox", "Item"], ["degree"], ["term"], "<none>"),
  ("Boost", ["Boost", "Item"], ["force"], ["expr"], "<none>"),
  ("AndOperation", ["AndOperation", "BaseOperation", "Item"], [], ["*operands"], "AND"),
  ("OrOperation", ["OrOperation", "BaseOperation", "Item"], [], ["*operands"], "OR"),
  ("UnknownOperation", ["UnknownOperation", "BaseOperation", "Item"], [], ["*operands"], ""),
  ("BoolOperation", ["BoolOperation", "BaseOperation", "Item"], [], ["*operands"], ""),
  ("Plus", ["Plus", "UnaryOperator", "Unary", "Item"], [], ["a"], "+"),
  ("Not", ["Not", "UnaryOperator", "Unary", "Item"], [], ["a"], "NOT"),
  ("Prohibit", ["Prohibit", "UnaryOperator", "Unary", "Item"], [], ["a"], "-"),
  ("From", ["From", "OpenRange", "Unary", "Item"], ["include"], ["a"], ">"),
  ("To", ["To", "OpenRange", "Unary", "Item"], ["include"], ["a"], "<"),
  ("NoneItem", ["NoneItem", "Item"], [], [], "<none>")
]

/-- **Translator obligation**: the class data read from the source on this run is what the model of
`__eq__`, `children` and `clone_item` was written against. -/
theorem class_table_ok : Luqum.Generated.classTable = expectedClassTable := by decide

end Luqum.Props.C09
