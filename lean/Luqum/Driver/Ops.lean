import Luqum.Driver.Codec
import Luqum.Model.ParserInst
import Luqum.Model.Transform
import Luqum.Model.Naming
import Luqum.Model.Check
import Luqum.Model.Pretty
import Luqum.Model.Es
import Luqum.Model.Schema
import Luqum.Model.Threads

namespace Luqum.Ops
open Lean (Json)
open Luqum.Codec

def pathJ (p : List Nat) : Json := Json.arr (p.map (fun n => Json.num (Lean.JsonNumber.fromNat n))).toArray
def pathsJ (ps : List (List Nat)) : Json := Json.arr (ps.map pathJ).toArray

def getPath (j : Json) : Except String (List Nat) := do
  let a ← j.getArr?
  a.toList.mapM (fun x => x.getNat?)

def getPaths (j : Json) (k : String) : Except String (List (List Nat)) := do
  let a ← getArr j k
  a.mapM getPath

def getStrList (j : Json) (k : String) : Except String (List String) := do
  let a ← getArr j k
  a.mapM (fun x => x.getStr?)

def getStrD (j : Json) (k : String) (d : String) : Str :=
  match j.getObjVal? k with
  | .ok v => match v.getStr? with | .ok s => s.toList | _ => d.toList
  | _ => d.toList

def pathLt : List Nat → List Nat → Bool
  | [], [] => false
  | [], _ => true
  | _, [] => false
  | a :: r, b :: s => a < b || (a == b && pathLt r s)

def sortPaths (ps : List (List Nat)) : List (List Nat) :=
  (ps.toArray.qsort pathLt).toList.eraseDups

partial def jvalJ : JVal → Json
  | .str s => str s
  | .num d =>
    let c := d.canon
    Json.str s!"num:{if c.neg then 1 else 0}:{c.coeff}:{c.exp}"
  | .bool b => Json.bool b
  | .null => Json.null
  | .arr xs => Json.arr (xs.map jvalJ).toArray
  | .obj kvs => Json.mkObj (kvs.map fun kv => (String.ofList kv.1, jvalJ kv.2))

partial def getJVal (j : Json) : Except String JVal :=
  match j with
  | .str s => pure (.str s.toList)
  | .bool b => pure (.bool b)
  | .null => pure .null
  | .num n =>
    if n.exponent == 0 then pure (.num { neg := n.mantissa < 0, coeff := n.mantissa.natAbs, exp := 0 })
    else pure (.num { neg := n.mantissa < 0, coeff := n.mantissa.natAbs, exp := - (n.exponent : Int) })
  | .arr a => do let xs ← a.toList.mapM getJVal; pure (.arr xs)
  | .obj kvs => do
    let xs ← kvs.toList.mapM fun (k, v) => do let v' ← getJVal v; pure (k.toList, v')
    pure (.obj xs)

partial def getSpec (j : Json) : Except String Spec :=
  match j with
  | .null => pure .none
  | .arr a => do let xs ← a.toList.mapM (fun x => x.getStr?); pure (.list (xs.map String.toList))
  | .obj kvs => do
    let xs ← kvs.toList.mapM fun (k, v) => do let v' ← getSpec v; pure (k.toList, v')
    pure (.dict xs)
  | _ => throw "bad spec"

/-- dict specs must keep the insertion order of the python dict: they are sent as [[key, value], …] -/
partial def getSpecOrdered (j : Json) : Except String Spec :=
  match j with
  | .null => pure .none
  | .obj _ => do
    let kind ← j.getObjVal? "k" >>= Json.getStr?
    if kind == "list" then
      let a ← getArr j "v"
      let xs ← a.mapM (fun x => x.getStr?)
      pure (.list (xs.map String.toList))
    else
      let a ← getArr j "v"
      let xs ← a.mapM fun e => do
        let pair ← e.getArr?
        let k ← (pair.getD 0 Json.null).getStr?
        let v ← getSpecOrdered (pair.getD 1 Json.null)
        pure (k.toList, v)
      pure (.dict xs)
  | _ => throw "bad ordered spec"

def getCfg (j : Json) : Except String EsCfg := do
  let fo ← match j.getObjVal? "field_options" with
    | .ok (.obj kvs) => kvs.toList.mapM fun (k, v) => do
        match ← getJVal v with
        | .obj o => pure (k.toList, o)
        | _ => throw "field option must be an object"
    | _ => pure []
  let na ← (getStrList j "not_analyzed" <|> pure [])
  let sp (k : String) : Except String Spec :=
    match j.getObjVal? k with
    | .ok v => getSpecOrdered v
    | .error _ => pure .none
  return { defaultMust := getBoolD j "default_must" false,
           defaultField := getStrD j "default_field" "text",
           notAnalyzed := na.map String.toList,
           nested := ← sp "nested", objectFields := ← sp "object", subFields := ← sp "sub",
           fieldOptions := fo, matchWordAsPhrase := getBoolD j "match_word_as_phrase" false }

def esErrJ : EsErr → Json
  | .orAnd m => Json.arr #[Json.str "OrAndAndOnSameLevel", str m]
  | .nestedSearch m => Json.arr #[Json.str "NestedSearchFieldException", str m]
  | .objectSearch m => Json.arr #[Json.str "ObjectSearchFieldException", str m]
  | .other c => Json.arr #[Json.str c, Json.null]

def handle (j : Json) : Except String Json := do
  let op ← j.getObjVal? "op" >>= Json.getStr?
  match op with
  | "print" =>
    let t ← getTree (← j.getObjVal? "tree")
    return Json.mkObj [("str", str t.str), ("strht", str t.strHT)]
  | "eq" =>
    let a ← getTree (← j.getObjVal? "a")
    let b ← getTree (← j.getObjVal? "b")
    return Json.mkObj [("eq", Json.bool (a.eqv b))]
  | "clone" =>
    let t ← getTree (← j.getObjVal? "tree")
    return Json.mkObj [("tree", treeJ t.cloneItem)]
  | "parse" =>
    let q ← getStr j "q"
    match parse q with
    | .ok t => return Json.mkObj [("ok", treeJ t)]
    | .error e =>
      let (cls, msg) := e.render
      return Json.mkObj [("err", Json.arr #[Json.str cls, Json.str msg])]
  | "visit" =>
    let t ← getTree (← j.getObjVal? "tree")
    let hs ← getStrList j "handlers"
    let cacheJ ← (getArr j "cache" <|> pure [])
    let cache : Cache ← cacheJ.mapM (fun e => do
      let a ← e.getArr?
      let c ← (a.getD 0 Json.null).getStr?
      let h ← (a.getD 1 Json.null).getStr?
      pure (c, h))
    let (evs, cache') := visitEvents hs cache [] [] t
    let evJ := evs.map fun e => Json.mkObj [("h", Json.str e.handler), ("c", Json.str e.node.className),
      ("path", pathJ e.path), ("parents", Json.arr (e.parents.map (fun p => Json.str p.className)).toArray)]
    let cJ := cache'.map fun e => Json.arr #[Json.str e.1, Json.str e.2]
    return Json.mkObj [("events", Json.arr evJ.toArray), ("cache", Json.arr cJ.toArray)]
  | "visitseq" =>
    -- several visits by one visitor instance: the dispatch cache is threaded
    let hs ← getStrList j "handlers"
    let treesJ ← getArr j "trees"
    let trees ← treesJ.mapM getTree
    let (outs, _) := trees.foldl (fun (acc : List Json × Cache) t =>
      let (evs, c') := visitEvents hs acc.2 [] [] t
      let evJ := evs.map fun e => Json.mkObj [("h", Json.str e.handler), ("c", Json.str e.node.className),
        ("path", pathJ e.path), ("parents", Json.arr (e.parents.map (fun p => Json.str p.className)).toArray)]
      (acc.1 ++ [Json.arr evJ.toArray], c')) ([], [])
    return Json.mkObj [("visits", Json.arr outs.toArray)]
  | "copy" =>
    let t ← getTree (← j.getObjVal? "tree")
    return Json.mkObj [("tree", treeJ t.copy)]
  | "resolve" =>
    let t ← getTree (← j.getObjVal? "tree")
    let to ← j.getObjVal? "to" >>= Json.getStr?
    let rt ← match to with
      | "lucene" => pure ResolveTo.lucene | "and" => pure ResolveTo.and
      | "or" => pure ResolveTo.or | "bool" => pure ResolveTo.bool
      | _ => throw "bad resolve target"
    return Json.mkObj [("tree", treeJ (resolve rt (getStrD j "add_head" " ") t))]
  | "openrange" =>
    let t ← getTree (← j.getObjVal? "tree")
    return Json.mkObj [("tree", treeJ (openRange (getBoolD j "merge" false) (getStrD j "add_head" " ") t))]
  | "aht" =>
    let t ← getTree (← j.getObjVal? "tree")
    match aht t with
    | some r => return Json.mkObj [("ok", treeJ r)]
    | none => return Json.mkObj [("err", Json.str "IndexError")]
  | "autoname" =>
    let t ← getTree (← j.getObjVal? "tree")
    match autoName t with
    | some (t', m) =>
      return Json.mkObj [("tree", treeJ t'),
        ("map", Json.arr (m.map (fun e => Json.arr #[str e.1, pathJ e.2])).toArray)]
    | none => return Json.mkObj [("err", Json.str "KeyError")]
  | "propagate" =>
    let t ← getTree (← j.getObjVal? "tree")
    let matching ← getPaths j "matching"
    let other ← getPaths j "other"
    let (_, ok, ko) := propagate (propCfg (getBoolD j "default_or" true)) matching other [] t
    return Json.mkObj [("ok", pathsJ (sortPaths ok)), ("ko", pathsJ (sortPaths ko))]
  | "mark" =>
    let t ← getTree (← j.getObjVal? "tree")
    let ok ← getPaths j "ok"
    let ko ← getPaths j "ko"
    let m : MarkCfg := { okClass := getStrD j "ok_class" "ok", koClass := getStrD j "ko_class" "ko",
                         element := getStrD j "element" "span", parcimonious := getBoolD j "parcimonious" true }
    return Json.mkObj [("str", str (htmlMark m ok ko t))]
  | "check" =>
    let t ← getTree (← j.getObjVal? "tree")
    let zeal ← getNat j "zeal"
    let errs := luceneErrors zeal t
    return Json.mkObj [("errors", Json.arr (errs.map str).toArray), ("ok", Json.bool (luceneCheck zeal t))]
  | "pretty" =>
    let t ← getTree (← j.getObjVal? "tree")
    let cfg : PrettyCfg := { indent := ← getNat j "indent", maxLen := ← getInt j "max_len",
                             inlineOps := getBoolD j "inline_ops" false }
    match prettify cfg t with
    | some s => return Json.mkObj [("ok", str s)]
    | none => return Json.mkObj [("err", Json.str "AttributeError")]
  | "es" =>
    let t ← getTree (← j.getObjVal? "tree")
    let cfg ← getCfg (← j.getObjVal? "cfg")
    match esBuild cfg t with
    | .ok v => return Json.mkObj [("ok", jvalJ v)]
    | .error e => return Json.mkObj [("err", esErrJ e)]
  | "schema" =>
    let sch ← getJVal (← j.getObjVal? "schema")
    let strs (xs : List Str) : Json := Json.arr ((xs.map String.ofList).toArray.qsort (· < ·) |>.map Json.str)
    let base := [("default_field", str (schemaDefaultField sch)),
      ("not_analyzed_fields", strs (schemaNotAnalyzed sch)),
      ("nested_fields", jvalJ (.obj (schemaNestedFields sch))),
      ("object_fields", strs (schemaObjectFields sch)),
      ("sub_fields", strs (schemaSubFields sch))]
    match j.getObjVal? "tree" with
    | .ok tj =>
      let t ← getTree tj
      let res := match esBuild (schemaCfg sch) t with
        | .ok v => Json.mkObj [("ok", jvalJ v)]
        | .error e => Json.mkObj [("err", esErrJ e)]
      return Json.mkObj (base ++ [("build", res)])
    | .error _ => return Json.mkObj base
  | "threads" =>
    let inputsJ ← getArr j "inputs"
    let inputs ← inputsJ.mapM (fun x => x.getStr?)
    let schedJ ← getArr j "schedule"
    let sched ← schedJ.mapM (fun x => x.getNat?)
    let w := (World.init (inputs.map String.toList)).run tables sched
    -- let every thread finish (round robin) and report its outcome
    let done := w.threads.map fun p => (piter tables (parseFuel p.toks.length + 8) p).result
    let outs := done.map fun r => match r with
      | some (.ok (.item t)) => Json.mkObj [("ok", treeJ t)]
      | some (.ok (.tok ..)) => Json.mkObj [("driver_error", Json.str "token result")]
      | some (.error e) => let (cls, msg) := e.render; Json.mkObj [("err", Json.arr #[Json.str cls, Json.str msg])]
      | none => Json.mkObj [("driver_error", Json.str "unfinished")]
    return Json.mkObj [("results", Json.arr outs.toArray)]
  | "specs" =>
    let cfg ← getCfg (← j.getObjVal? "cfg")
    let strs (xs : List Str) : Json := Json.arr ((xs.map String.ofList).toArray.qsort (· < ·) |>.map Json.str)
    return Json.mkObj [("nested_prefixes", strs cfg.nestedPrefixes), ("nested_flat", strs cfg.nestedFlat),
      ("object", match cfg.objectNorm with | some o => strs o | none => Json.null),
      ("sub", match cfg.subNorm with | some o => strs o | none => Json.null)]
  | "echo" =>
    let t ← getTree (← j.getObjVal? "tree")
    return Json.mkObj [("tree", treeJ t)]
  | other => throw s!"unknown op {other}"

end Luqum.Ops
