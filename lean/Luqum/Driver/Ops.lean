import Luqum.Driver.Codec
import Luqum.Model.ParserInst

namespace Luqum.Ops
open Lean (Json)
open Luqum.Codec

def handle (j : Json) : Except String Json := do
  let op ← j.getObjVal? "op" >>= Json.getStr?
  match op with
  | "print" =>
    let t ← getTree (← j.getObjVal? "tree")
    return Json.mkObj [("str", str t.str), ("strht", str t.strHT)]
  | "eq" =>
    let a ← getTree (← j.getObjVal? "a")
    let b ← getTree (← j.getObjVal? "b")
    return Json.mkObj [("eq", Json.bool (a.eqv b))]
  | "clone" =>
    let t ← getTree (← j.getObjVal? "tree")
    return Json.mkObj [("tree", treeJ t.cloneItem)]
  | "parse" =>
    let q ← getStr j "q"
    match parse q with
    | .ok t => return Json.mkObj [("ok", treeJ t)]
    | .error e =>
      let (cls, msg) := e.render
      return Json.mkObj [("err", Json.arr #[Json.str cls, Json.str msg])]
  | "echo" =>
    let t ← getTree (← j.getObjVal? "tree")
    return Json.mkObj [("tree", treeJ t)]
  | other => throw s!"unknown op {other}"

end Luqum.Ops
