import Luqum.Driver.Codec

namespace Luqum.Ops
open Lean (Json)
open Luqum.Codec

def handle (j : Json) : Except String Json := do
  let op ← j.getObjVal? "op" >>= Json.getStr?
  match op with
  | "print" =>
    let t ← getTree (← j.getObjVal? "tree")
    return Json.mkObj [("str", str t.str), ("strht", str t.strHT)]
  | "eq" =>
    let a ← getTree (← j.getObjVal? "a")
    let b ← getTree (← j.getObjVal? "b")
    return Json.mkObj [("eq", Json.bool (a.eqv b))]
  | "clone" =>
    let t ← getTree (← j.getObjVal? "tree")
    return Json.mkObj [("tree", treeJ t.cloneItem)]
  | "echo" =>
    let t ← getTree (← j.getObjVal? "tree")
    return Json.mkObj [("tree", treeJ t)]
  | other => throw s!"unknown op {other}"

end Luqum.Ops
