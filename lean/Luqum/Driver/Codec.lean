/-
  JSON encoding of model values for the line protocol (driver only; not part of any theorem).
-/
import Lean.Data.Json
import Luqum.Model.Basic

namespace Luqum.Codec
open Lean (Json)

def str (s : Str) : Json := Json.str (String.ofList s)
def optStr : Option Str → Json
  | none => Json.null
  | some s => str s
def optInt : Option Int → Json
  | none => Json.null
  | some i => Json.num (Lean.JsonNumber.fromInt i)

def decJ (d : Dec) : Json :=
  Json.mkObj [("neg", Json.bool d.neg), ("coeff", Json.str (toString d.coeff)),
              ("exp", Json.num (Lean.JsonNumber.fromInt d.exp))]

def numJ (n : Num) : Json :=
  Json.mkObj [("neg", Json.bool n.val.neg), ("coeff", Json.str (toString n.val.coeff)),
              ("exp", Json.num (Lean.JsonNumber.fromInt n.val.exp)), ("imp", Json.bool n.implicit)]

def layFields (l : Lay) : List (String × Json) :=
  [("h", str l.head), ("t", str l.tail), ("p", optInt l.pos), ("s", optInt l.size), ("n", optStr l.name)]

partial def treeJ (t : Tree) : Json :=
  let base : List (String × Json) := [("c", Json.str t.className)] ++ layFields t.lay
  let extra : List (String × Json) :=
    match t with
    | .term _ v _ => [("v", str v)]
    | .field n _ _ => [("name", str n)]
    | .range _ _ il ih _ => [("il", Json.bool il), ("ih", Json.bool ih)]
    | .approx _ _ n _ => [("num", numJ n)]
    | .boost _ n _ => [("num", numJ n)]
    | .orange _ _ i _ => [("inc", Json.bool i)]
    | _ => []
  Json.mkObj (base ++ extra ++ [("ch", Json.arr (t.children.map treeJ).toArray)])

/-! decoding -/

def getStr (j : Json) (k : String) : Except String Str := do
  let v ← j.getObjVal? k
  let s ← v.getStr?
  return s.toList

def getOptStr (j : Json) (k : String) : Except String (Option Str) :=
  match j.getObjVal? k with
  | .error _ => .ok none
  | .ok v => if v.isNull then .ok none else do
      let s ← v.getStr?
      return some s.toList

def getOptInt (j : Json) (k : String) : Except String (Option Int) :=
  match j.getObjVal? k with
  | .error _ => .ok none
  | .ok v => if v.isNull then .ok none else do
      let i ← v.getInt?
      return some i

def getBool (j : Json) (k : String) : Except String Bool := do
  let v ← j.getObjVal? k
  v.getBool?

def getBoolD (j : Json) (k : String) (d : Bool) : Bool :=
  match j.getObjVal? k with
  | .ok v => match v.getBool? with | .ok b => b | _ => d
  | _ => d

def getNat (j : Json) (k : String) : Except String Nat := do
  let v ← j.getObjVal? k
  v.getNat?

def getInt (j : Json) (k : String) : Except String Int := do
  let v ← j.getObjVal? k
  v.getInt?

def getArr (j : Json) (k : String) : Except String (List Json) := do
  let v ← j.getObjVal? k
  let a ← v.getArr?
  return a.toList

def getLay (j : Json) : Except String Lay := do
  let h ← (getOptStr j "h")
  let t ← (getOptStr j "t")
  let p ← getOptInt j "p"
  let s ← getOptInt j "s"
  let n ← getOptStr j "n"
  return { head := h.getD [], tail := t.getD [], pos := p, size := s, name := n }

def getDec (j : Json) : Except String Dec := do
  let neg ← getBool j "neg"
  let cs ← getStr j "coeff"
  let c ← match (String.ofList cs).toNat? with
    | some c => pure c
    | none => throw "bad coeff"
  let e ← getInt j "exp"
  return { neg := neg, coeff := c, exp := e }

def getNum (j : Json) : Except String Num := do
  let d ← getDec j
  let imp := getBoolD j "imp" false
  return { val := d, implicit := imp, raw := if imp then [] else d.render }

partial def getTree (j : Json) : Except String Tree := do
  let c ← j.getObjVal? "c" >>= Json.getStr?
  let l ← getLay j
  let chJ ← match j.getObjVal? "ch" with
    | .ok v => (do let a ← v.getArr?; pure a.toList)
    | .error _ => pure []
  let ch ← chJ.mapM getTree
  let one : Except String Tree := match ch with
    | [x] => pure x
    | _ => throw s!"{c}: expected one child"
  match c with
  | "Word" => return .term .word (← getStr j "v") l
  | "Phrase" => return .term .phrase (← getStr j "v") l
  | "Regex" => return .term .regex (← getStr j "v") l
  | "SearchField" => return .field (← getStr j "name") (← one) l
  | "Group" => return .group .group (← one) l
  | "FieldGroup" => return .group .fieldGroup (← one) l
  | "Range" =>
    match ch with
    | [a, b] => return .range a b (← getBool j "il") (← getBool j "ih") l
    | _ => throw "Range: expected two children"
  | "Fuzzy" => return .approx .fuzzy (← one) (← getNum (← j.getObjVal? "num")) l
  | "Proximity" => return .approx .proximity (← one) (← getNum (← j.getObjVal? "num")) l
  | "Boost" => return .boost (← one) (← getNum (← j.getObjVal? "num")) l
  | "AndOperation" => return .op .and ch l
  | "OrOperation" => return .op .or ch l
  | "UnknownOperation" => return .op .unk ch l
  | "BoolOperation" => return .op .bool ch l
  | "Plus" => return .unary .plus (← one) l
  | "Not" => return .unary .not (← one) l
  | "Prohibit" => return .unary .prohibit (← one) l
  | "From" => return .orange .from (← one) (← getBool j "inc") l
  | "To" => return .orange .to (← one) (← getBool j "inc") l
  | "NoneItem" => return .none l
  | other => throw s!"unknown class {other}"

end Luqum.Codec
