/-
  Line-protocol driver for the executable model: one JSON request per line on stdin,
  one JSON answer per line on stdout. Not part of any theorem.
-/
import Luqum.Driver.Ops

open Lean (Json)

partial def loop (h : IO.FS.Stream) (out : IO.FS.Stream) : IO Unit := do
  let line ← h.getLine
  if line.isEmpty then return ()
  let ans : Json :=
    match Json.parse line with
    | .error e => Json.mkObj [("driver_error", Json.str s!"json: {e}")]
    | .ok j => match Luqum.Ops.handle j with
      | .ok r => r
      | .error e => Json.mkObj [("driver_error", Json.str e)]
  out.putStrLn ans.compress
  loop h out

def main : IO Unit := do
  let out ← IO.getStdout
  loop (← IO.getStdin) out
  out.flush
